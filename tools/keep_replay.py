#!/venv/bin/python
"""Copy a replay file into the regression corpus: tools/keep_replay.py <replay.json> <name> [note]"""
import json, os, sys
ROOT = os.path.dirname(os.path.dirname(os.path.abspath(__file__)))
data = json.load(open(sys.argv[1]))
prop = data['property']
os.makedirs(os.path.join(ROOT, 'corpus', prop), exist_ok=True)
out = {'property': prop, 'note': sys.argv[3] if len(sys.argv) > 3 else '', 'case': data['case']}
path = os.path.join(ROOT, 'corpus', prop, sys.argv[2] + '.json')
json.dump(out, open(path, 'w'), indent=1)
print(path)
