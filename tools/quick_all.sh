#!/bin/bash
# tools/quick_all.sh ID...  -- run quick tier of the given checks, summarise
for id in "$@"; do
  out=$(./check $id --tier quick 2>&1); rc=$?
  echo "[$id rc=$rc] $(echo "$out" | grep -E '^C[0-9]+ tier' | sed 's/excluded_known.*wall/wall/')"
  echo "$out" | grep -E 'clause=|HARNESS|Traceback|Error' | cut -c1-260
done
exit 0
