#!/bin/bash
# tools/quick_all.sh ID...  -- run quick tier of the given checks, summarise
[ $# -eq 0 ] && set -- C01 C02 C03 C04 C05 C06 C07 C08 C09 C10 C11 C12 C13 C14 C15 C16 C17 C18 C19 C20
for id in "$@"; do
  out=$(./check $id --tier quick 2>&1); rc=$?
  echo "[$id rc=$rc] $(echo "$out" | grep -E '^C[0-9]+ tier' | sed 's/excluded_known.*wall/wall/')"
  echo "$out" | grep -E 'clause=|HARNESS|Traceback|Error' | cut -c1-260
done
exit 0
