#!/bin/bash
# tools/seeded_regress.sh [names...]  -- re-confirm every kept seeded change against /repo HEAD and the current checks
# (scratch worktree per seed, removed afterwards); rewrites seeded/<name>/meta.json and notes/seeded-summary.md
cd "$(dirname "$0")/.."
names=${@:-$(ls seeded)}
for name in $names; do
  d=$PWD/seeded/$name
  [ -f $d/meta.json ] || continue
  prop=$(/venv/bin/python -c "import json;print(json.load(open('$d/meta.json'))['breaks_property'])")
  checks=$(/venv/bin/python -c "import json;m=json.load(open('$d/meta.json'));c=m.get('detected_by') or [m['breaks_property']];print(','.join(c))")
  out=$(tools/seed_confirm.py $d $prop --name $name --checks $checks --keep 2>&1)
  echo "$name prop=$prop checks=$checks $(echo "$out" | /venv/bin/python -c "
import sys,json
txt=sys.stdin.read()
try:
    j=json.loads(txt[txt.index('{'):txt.rindex('}')+1]); print('confirmed',j.get('confirmed'),'applies',j.get('applies'),'detected_by',j.get('detected_by'))
except Exception as e: print('ERR',txt[-300:].replace(chr(10),' '))
")"
done
tools/seeded_summary.py
