#!/venv/bin/python
"""Regenerate notes/seeded-summary.md from seeded/*/meta.json."""
import json, os, re
ROOT = os.path.dirname(os.path.dirname(os.path.abspath(__file__)))
rows = []
for name in sorted(os.listdir(os.path.join(ROOT, 'seeded'))):
    d = os.path.join(ROOT, 'seeded', name)
    mp = os.path.join(d, 'meta.json')
    if not os.path.exists(mp):
        continue
    m = json.load(open(mp))
    patch = open(os.path.join(d, 'patch.diff')).read()
    files = sorted({os.path.basename(f) for f in re.findall(r'^\+\+\+ b/(\S+)', patch, re.M)})
    det = m.get('detected_by', [])
    first = ''
    for c in det:
        cl = m.get('checks_run', {}).get(c, {}).get('clauses', [])
        if cl:
            first = cl[0].split('clause=')[1].split(' ')[0]
            break
    rows.append((name, m['breaks_property'], ', '.join(files), ', '.join(det) or 'NOT DETECTED', first))
with open(os.path.join(ROOT, 'notes', 'seeded-summary.md'), 'w') as out:
    out.write('| seed | property | files touched | detected by (quick tier) | first clause |\n|---|---|---|---|---|\n')
    for r in rows:
        out.write('| ' + ' | '.join(r) + ' |\n')
    n = len(rows); nd = sum(1 for r in rows if r[3] != 'NOT DETECTED')
    out.write(f'\n{nd} of {n} kept seeded changes are detected by the quick tier of the listed checks.\n')
print(f'{len(rows)} seeds summarised')
