#!/venv/bin/python
"""For every `fix:` commit in /repo: revert it in a scratch worktree of HEAD and run the checks that found the defect.
A check that stays green against the revert of a repair it motivated has lost its sensitivity.
Writes notes/revert-matrix.json.   tools/revert_matrix.py [commit ...]"""
import json, os, subprocess, sys, tempfile, shutil

ROOT = os.path.dirname(os.path.dirname(os.path.abspath(__file__)))
PRIMARY = {
    '805def4': ['C01'], '4fbfbc7': ['C04', 'C05'], '449f5ae': ['C04', 'C05'], '04839b0': ['C04'], '24f5cd4': ['C04'],
    '4a41262': ['C04'], '3f256bc': ['C04', 'C05'], '4dce060': ['C02', 'C04'], 'a5b15e2': ['C04', 'C02'], 'b7c8092': ['C05'],
    '8fa75db': ['C02'], '20346bc': ['C06', 'C05'], 'b5fffa6': ['C02'], '412b286': ['C13'], '6f0a89b': ['C03', 'C04'],
    '2eaf189': ['C06', 'C10'], 'e09ca51': ['C05'], '447d05e': ['C04'], '61201b7': ['C05'], '176644f': ['C15'],
    'af11007': ['C14'], 'd4594d7': ['C19'], '5dee3dd': ['C19'], 'd6fb045': ['C20'], '3a4f30b': ['C05'],
    '25386e9': ['C16'], 'a6e0433': ['C18'], 'db882e5': ['C05'],
    'd77b828': ['C14'], 'e3a9a38': ['C04'], '54da3d0': ['C02'], 'ee6687e': ['C13'], '53a4476': ['C02'], 'f6f0f66': ['C03'], '82ade49': ['C04'], 'fac76fd': ['C05'],
    '89eea52': ['C02'], '3f2a1c2': ['C13', 'C08'], '6342c20': ['C01'], 'c507e29': ['C15'],
}


def sh(cmd, **kw):
    p = subprocess.run(cmd, shell=True, capture_output=True, text=True, **kw)
    return p.returncode, p.stdout + p.stderr


def main():
    commits = sys.argv[1:] or list(PRIMARY)
    out_path = os.path.join(ROOT, 'notes', 'revert-matrix.json')
    results = json.load(open(out_path)) if os.path.exists(out_path) else {}
    for commit in commits:
        tmp = tempfile.mkdtemp(prefix='revm.')
        wt = os.path.join(tmp, 'wt')
        sh(f'git -C /repo worktree add -q --detach {wt} HEAD')
        try:
            rc, subject = sh(f'git -C /repo log -1 --format=%s {commit}')
            rc, out = sh(f'git -C {wt} revert --no-commit {commit}')
            entry = {'subject': subject.strip(), 'revert_applies': rc == 0, 'checks': {}}
            if rc != 0:
                # later fixes touch the same lines: try the reverse patch with 3-way merge, else record the conflict
                sh(f'git -C {wt} revert --abort; git -C {wt} checkout -q -- .')
                rc2, out2 = sh(f'git -C /repo diff {commit}^ {commit} | git -C {wt} apply -R --3way')
                entry['revert_applies'] = rc2 == 0 and 'conflict' not in out2.lower()
                if not entry['revert_applies']:
                    entry['note'] = 'conflicts with later repairs of the same lines'
                    results[commit] = entry
                    print(commit, 'CONFLICT')
                    continue
            for check in PRIMARY.get(commit, []):
                rc, out = sh(f'./check {check} --tier quick', cwd=ROOT, env=dict(os.environ, VERIF_REPO=wt))
                clauses = [l.strip()[:200] for l in out.splitlines() if l.strip().startswith('clause=')]
                entry['checks'][check] = {'rc': rc, 'clauses': clauses[:3]}
            entry['detected_by'] = [c for c, d in entry['checks'].items() if d['rc'] == 1]
            results[commit] = entry
            print(commit, entry['detected_by'] or 'MISSED', entry['subject'][:70])
        finally:
            sh(f'git -C /repo worktree remove --force {wt}')
            shutil.rmtree(tmp, ignore_errors=True)
        json.dump(results, open(out_path, 'w'), indent=1)


if __name__ == '__main__':
    main()
