#!/bin/bash
# tools/seed_eval.sh <round-dir> <ID> [variants...]  -- confirm + run checks for variants a/b of a round-2 seed, keep if confirmed
round=$1; id=$2; shift 2
vars=${@:-a b}
for v in $vars; do
  src=$round/$id/out/$v
  [ -f $src/patch.diff ] || { echo "== $id-$v: no patch"; continue; }
  echo "== $id-${SUFFIX_PREFIX}$v"
  tools/seed_confirm.py $src $id --name $id-${SUFFIX_PREFIX}$v --keep ${EXTRA_CHECKS:+--checks $EXTRA_CHECKS} 2>&1 | /venv/bin/python -c "
import sys,json
txt=sys.stdin.read()
try:
    j=json.loads(txt[txt.index('{'):txt.rindex('}')+1])
    print('  confirmed',j.get('confirmed'),'(tests',j.get('tests_ok'),'demo',j.get('demo_without_patch_rc'),j.get('demo_with_patch_rc'),') detected_by',j.get('detected_by'))
    for c,d in j.get('detections',{}).items(): print('    ',c,'rc',d['rc'],d['wall_s'],'s',[x[:200] for x in d['clauses'][:2]], d.get('error','')[-200:])
except Exception as e: print(txt[-600:])
"
done
