#!/bin/bash
# Run the repository's pinned suite (guard off) and compare with BASELINE.json stable_pass.
repo="${1:-/repo}"
out=$(mktemp /tmp/junit.XXXXXX.xml)
cd "$repo" && env -u PLUMPY_VERIF /venv/bin/python -m pytest -q -p no:cacheprovider --timeout=900 --continue-on-collection-errors --junitxml="$out" --deselect tests/rmq >/dev/null 2>&1
/venv/bin/python - "$out" <<'PY'
import json, sys
import xml.etree.ElementTree as ET
base = set(json.load(open('/root/.vp/BASELINE.json'))['stable_pass'])
passed = set()
for tc in ET.parse(sys.argv[1]).getroot().iter('testcase'):
    if not list(tc):
        passed.add(f"{tc.get('classname')}::{tc.get('name')}")
missing = sorted(base - passed)
print(f'baseline={len(base)} passed_now={len(passed & base)} missing={len(missing)}')
for m in missing[:20]:
    print('  MISSING', m)
sys.exit(1 if missing else 0)
PY
rc=$?
rm -f "$out"
exit $rc
