#!/venv/bin/python
import json, sys, glob
for f in sorted(glob.glob(sys.argv[1])):
    d = json.load(open(f))
    print('==', f)
    print(' case:', json.dumps(d['case']))
    for v in d['verdict']['violations']:
        print(' VIOL', v['clause'], '|', str(v['detail'])[:250])
    h = d['verdict'].get('history') or {}
    if isinstance(h, dict):
        print(' calls:', [(c['who'], c['what'], c.get('phase'), c['ret'], c['raised'], c.get('fut')) for c in h.get('calls', [])])
        print(' trans:', h.get('transitions'), 'final', h.get('final'))
        print(' steps:', h.get('steps'))
        print(' escapes:', h.get('escapes'))
