#!/venv/bin/python
"""Regenerate MANIFEST.json from the table below (keeps the file valid by construction)."""
import json
import os

ROOT = os.path.dirname(os.path.dirname(os.path.abspath(__file__)))

# id -> (level, technique, level text, level note, design ref)
CHECKS = {
    'C01': (
        'exploration',
        'property-based testing: Hypothesis-generated and exhaustively enumerated (program, schedule) cases on a harness-owned event loop; trace invariant over the lifecycle graph',
        'Every announced transition and every state sampled after every single event-loop callback is checked against the documented lifecycle graph, for all placements of up to K control requests (exhaustive for K<=2 quick / K<=3 thorough on 9 catalogue programs, Hypothesis-generated programs beyond), each run ending with a post-mortem burst of every control call and all late callbacks. Exploration is the right level: the property is a safety invariant over schedules that the harness can own completely for this single-threaded asyncio library.',
        'Trusts the StepLoop (FIFO execution of asyncio ready handles, external requests injected between two callbacks) and the public observers (state, has_terminated, ENTERED_STATE callbacks). Raising lifecycle hooks are excluded (C03).',
        'DESIGN.md section 3 C01',
    ),
}

PENDING = {f'C{n:02d}': 'check not built yet in this round (see DESIGN.md section 9 for the build order)' for n in range(1, 21)}


def main():
    checks = []
    for pid, (level, technique, text, note, ref) in sorted(CHECKS.items()):
        checks.append(
            {
                'property_id': pid,
                'quick_cmd': f'./check {pid} --tier quick',
                'thorough_cmd': f'./check {pid} --tier thorough',
                'evidence_file': f'/verif/evidence/{pid}.json',
                'replay_cmd_template': f'./check {pid} --replay {{path}}',
                'engine': 'pv',
                'level_claimed': {'category': level, 'text': text, 'design_ref': ref},
                'level_note': note,
                'technique': technique,
            }
        )
    manifest = {
        'version': 1,
        'setup_cmd': '/venv/bin/pip install --no-index --find-links /opt/veriftools/wheels hypothesis >/dev/null 2>&1; /venv/bin/python -c "import hypothesis, plumpy"',
        'hooks': {
            'guard': 'PLUMPY_VERIF',
            'enable': 'no source hooks are needed: the harness observes through public API; ./check exports PLUMPY_VERIF=1 (reserved, unused by /repo)',
            'baseline_off_cmd': 'cd /repo && env -u PLUMPY_VERIF /venv/bin/python -m pytest -ra -q -p no:cacheprovider --timeout=900 --continue-on-collection-errors',
            'source_commits': [],
            'add_only': True,
        },
        'engines': [
            {
                'name': 'pv',
                'path': 'harness/pv',
                'serves_properties': sorted(CHECKS),
                'kind_free_text': 'property-based testing: harness-owned asyncio schedule (StepLoop), programs-as-data interpreted by generated Process/WorkChain classes, Hypothesis strategies + small-scope exhaustive enumeration on 16 cores, explicit oracles (reference models, twin runs, round trips, trace invariants), ddmin shrinking to JSON replay files',
            }
        ],
        'checks': checks,
        'notes': 'Entry point ./check <ID> --tier quick|thorough [--seed N] | --replay FILE. VERIF_SEED and VERIF_TIER are honoured. Exit 2 = harness error.',
        'not_applicable': [{'property_id': p, 'reason': r} for p, r in sorted(PENDING.items()) if p not in CHECKS],
    }
    with open(os.path.join(ROOT, 'MANIFEST.json'), 'w') as handle:
        json.dump(manifest, handle, indent=1)
        handle.write('\n')


if __name__ == '__main__':
    main()
