#!/venv/bin/python
"""Regenerate MANIFEST.json from the table below (keeps the file valid by construction)."""
import json
import os

ROOT = os.path.dirname(os.path.dirname(os.path.abspath(__file__)))

# id -> (level, technique, level text, level note, design ref)
CHECKS = {
    'C01': (
        'exploration',
        'property-based testing: Hypothesis-generated and exhaustively enumerated (program, schedule) cases on a harness-owned event loop; trace invariant over the lifecycle graph',
        'Every announced transition and every state sampled after every single event-loop callback is checked against the documented lifecycle graph, for all placements of up to K control requests (exhaustive for K<=2 quick / K<=3 thorough on 9 catalogue programs, Hypothesis-generated programs beyond), each run ending with a post-mortem burst of every control call and all late callbacks (also applied to a copy loaded from the terminal checkpoint); requests are additionally issued from 17 lifecycle-hook sites and against workchains; cleanups may raise, the caller may cancel the stepping task and step again, one-shot state-event observers unregister themselves while being called, the process may be close()d while live, steps may return Kill() without a message, callbacks are scheduled from outside (also before the first step), failures may carry an empty message, workchains may be recreated from a checkpoint before the request; the sampled state must equal the last announced state and the outcome (exception object, kill text, result) of a terminated process must never change. Exploration is the right level: the property is a safety invariant over schedules that the harness can own completely for this single-threaded asyncio library.',
        'Trusts the StepLoop (FIFO execution of asyncio ready handles, external requests injected between two callbacks) and the public observers (state, has_terminated, ENTERED_STATE callbacks). Raising lifecycle hooks are excluded (C03).',
        'DESIGN.md section 3 C01',
    ),
    'C02': (
        'exploration',
        'property-based testing: generated/enumerated (program, schedule, listener plan) cases on a harness-owned event loop; agreement matrix over all outcome views plus a per-callback future/terminated invariant',
        'After every single event-loop callback the future-done => terminated invariant is checked; at the end result(), successful(), is_successful, killed(), killed_msg(), exception(), future(), listener notifications, cleanups, closedness and done-ness of the step_until_terminated() task are compared with each other and with what the program returned/raised and which kill texts were issued. Exhaustive for K<=2 (quick) / K<=3 and K=4 in one window (thorough) requests on 7 catalogue programs plus listener-issued and hook-issued calls, with one of three cleanups optionally raising, a listener registered twice, a cleanup registering a follow-up cleanup, and the caller cancelling the task that runs step_until_terminated() and stepping the process again later (scope tasks), listeners that close() the process from its termination notification, and callbacks scheduled from outside; Hypothesis-generated programs beyond.',
        'Trusts the StepLoop (FIFO execution of asyncio ready handles, external requests injected between two callbacks; OS-thread races out of scope) and the public observers. Lifecycle hooks do not raise (C03).',
        'DESIGN.md section 3 C02',
    ),
    'C04': (
        'exploration',
        'property-based testing: small-scope exhaustive enumeration + Hypothesis over (program, schedule of pause/play/kill/resume/future-cancel, self-directed calls, listener-issued calls); tick-agnostic trace predicates and a probing kill from every live end configuration',
        'Every kill issued on a live process must not raise, must end the process KILLED (EXCEPTED only with an exception the program itself raised), its return value/future must resolve True exactly when KILLED, the text must be recorded, future().cancel() must behave like kill(), and from every live end configuration one more kill() must terminate the process. Exhaustive over the 5-request alphabet for K<=2 (quick) / K<=3 (thorough) at all tick placements on 6 catalogue programs, all in-step call sequences of length <=2/3, and listener-issued calls at 4 notifications; workchains awaiting harness futures; processes recreated from a checkpoint mid-schedule (reload); the caller cancelling the stepping task and stepping again around the kill, or cancelling the future a pending kill() returned (tasks); raising cleanups; an application-defined RUNNING state whose interrupt() reaches into the step (interruptible); a step failing after the kill request must end EXCEPTED and no step may be entered after a kill().',
        'Trusts the StepLoop (FIFO execution of asyncio ready handles, external requests injected between two callbacks; OS-thread races out of scope) and the public observers. Lifecycle hooks do not raise (C03).',
        'DESIGN.md section 3 C04',
    ),
    'C05': (
        'exploration',
        'property-based testing: metamorphic twin-run oracle (run with pause/play/resume requests vs the uninterrupted run with the same logical wake-ups), small-scope exhaustive + Hypothesis',
        'The executed step sequence with arguments, outputs, final state, result and final status must equal those of the twin run; no step entry or resumption may observe paused=True; pause()/play() never raise; play() leaves the process un-paused and it stays so until the next pause request; a pause that is not withdrawn takes effect before any further step; the status present before a pause is restored by the play that ends it. Exhaustive for K<=2 (quick) / K<=3 and K=4 on waits (thorough), plus workchains, pause/play around a termination, and a save/recreate in the middle of the schedule (reload), which must be as transparent as the pause itself; the caller may cancel the future a pending pause() returned (withdraw), after which a later pause must work; a lifecycle hook of the transition may set the status, which the play ending the pause must restore (hookstatus).',
        'Trusts the StepLoop (FIFO execution of asyncio ready handles, external requests injected between two callbacks; OS-thread races out of scope) and the public observers. Lifecycle hooks do not raise (C03).' + ' Steps are deterministic functions of their arguments (generated programs guarantee it).',
        'DESIGN.md section 3 C05',
    ),
    'C06': (
        'exploration',
        'property-based testing: exhaustive enumeration of all orders and tick gaps of wake-up events versus pause/play requests, plus Hypothesis; liveness checked as quiescence; twin-run reference for exactly-once delivery',
        'After all enabling events were delivered, the process was played and the loop is empty, the process must not be WAITING; the continuation must have run exactly once with the first resume value (compared with the twin run; the enumerated values include None, which is a value and not the absence of one); no exception may reach the loop handler. The completion phase never re-delivers a wake-up, so a lost one cannot be masked. Workchains awaiting futures and launched children are included, also with failing or killed items around pause/play, and 2-4 waiting processes on one loop (pair scopes): every process continues with exactly the values sent to it; the stepping task may be cancelled around the wake-up and the process stepped again (tasks); a kill withdrawn by its requester leaves a process that is woken up like any other (killwithdrawn).',
        'Trusts the StepLoop (FIFO execution of asyncio ready handles, external requests injected between two callbacks; OS-thread races out of scope) and the public observers. Lifecycle hooks do not raise (C03).',
        'DESIGN.md section 3 C06',
    ),
    'C03': (
        'fault_enumeration',
        'fault injection driven by property-based generation: complete enumeration of (hook / step function / callback / listener notification, occurrence, before|after super()) fault points per scenario, one injected fault per run, per-fault-class oracle',
        'For 17 catalogue scenarios (plain, pause/play, pause before start, kill while waiting, kill before start, async with outputs and callbacks, async with pause and kill, Kill command, kill while paused in two shapes, callback while paused, six in which a listener or a hook of the process requests a kill or pause during a transition, two with a raising cleanup, two with callbacks scheduled from outside before the first step) and for application-defined states whose exit() always fails every fault point counted by a fault-free dry run is executed once with the fault injected: construction-time hooks must propagate from the constructor; pause/play hook faults must reach the requester and leave the process controllable (a further pause() is probed); listener faults (half of them exceptions whose text cannot be rendered) and late callbacks must change nothing; every other fault must end EXCEPTED with exactly the injected exception on exception() and future() (whose exception must have been retrieved), closed, stepping task done, nothing escaped to the loop. Hypothesis adds generated scenarios with a drawn fault point.',
        'One injected fault per run and no other failure in it. The injector is an override in the generated class that calls super(); faults are plain Exception subclasses. Known finding KF-C03-1 (fault after close()) is excluded by signature and counted in the evidence.',
        'DESIGN.md section 3 C03',
    ),
    'C13': (
        'exploration',
        'property-based testing against a reference interpreter of the step commands, with a pickled-checkpoint restore at every state entry (metamorphic: restored continuation = suffix of the uninterrupted run)',
        'Generated chains of <=6 steps over all commands (Continue with positional and keyword arguments, Wait with and without resume value, plain value, Stop, UnsuccessfulResult, Kill(msg), raise); the executed (step, args, kwargs) sequence and the final state/result/successful/killed_msg must equal the reference interpreter, for the uninterrupted run and for a continuation from every checkpoint: those taken at every state entry and those taken from inside the 7 lifecycle hooks that run between the return of a step and the next state (there the step that just returned may run once more, everything after it is exact). Keyword names include those plumpy uses for its own parameters; steps may return application-defined subclasses of the commands; an application-defined WAITING state may resume itself while being entered (that wake-up is the first); a resolved future may be a plain result value.',
        'Arguments are plain picklable values; each restore uses a fresh deserialisation in a fresh event loop; steps are deterministic functions of their arguments.',
        'DESIGN.md section 3 C13',
    ),
    'C09': (
        'exploration',
        'property-based testing against an independent reference interpreter of the outline language (model-based), Hypothesis-generated ASTs plus a bounded-exhaustive small family',
        'Generated WorkChain classes are compiled from outline ASTs (steps, if_/elif_/else_, while_, return_, return_(code), nested to depth 3/4) with generated predicate truth sequences and step return sequences; the ordered list of every predicate and step call, the final state and result() must equal those of a 60-line recursive interpreter that shares no code with plumpy; steps may additionally register completed awaitables through to_context(), which does not change the denoted program; predicates may return lists, strings, tuples, ints or None instead of booleans; step results may be non-dict mappings; outline steps may be plain functions that are not what their name resolves to on the class.',
        'Bodies are non-empty (implicit precondition). Falling off the outline right after a ToContext-returning step accepts None or that mapping. Call counters live in ctx, predicates and steps are otherwise pure.',
        'DESIGN.md section 3 C09',
    ),
    'C10': (
        'exploration',
        'property-based testing: exhaustive enumeration of completion orders / awaitable kinds / registration ways / outcome mixes for small n plus Hypothesis; barrier predicate sampled at the entry of the next outline step',
        'At the entry of the step after the barrier every awaited future must be done and ctx[key] must equal its result (child: its outputs; later assignment wins); with a failing or killed item the workchain must end EXCEPTED with the first such error (KilledError for a killed child) and the next step must never run; nothing may reach the loop exception handler. The registering step is also placed as the last step of if_/elif_/else_/while_ bodies (and an if_ inside a while_); the generated workchains override to_context(), through which every registration must pass; failing items may carry falsy exception instances; one key may be handed two awaitables in one step.',
        'Completions are injected between two event-loop callbacks on the harness-owned loop; children are real launched processes gated by the harness.',
        'DESIGN.md section 3 C10',
    ),
    'C07': (
        'exploration',
        'property-based testing: round-trip oracle (save, load, save = save; loaded accessors = original accessors) at every state entry and paused point, through three media and two loader configurations',
        'Generated process programs (nested inputs, nested/dynamic outputs, wait msg/data, continuation args and kwargs over JSON scalars, nested containers, tuples and UUIDs; finished/unsuccessful/excepted/killed endings; pause/kill schedules) and workchain outlines are checkpointed at every ENTERED_STATE and every paused quiescent point; checkpoints are also taken from inside 8 lifecycle hooks, for a class with a non-identity input/output codec and for declared inputs with non-constant callable defaults; each checkpoint travels as deep copy, pickle and YAML into a fresh event loop and is saved again: the four public ways of recreating a process (Bundle.unbundle, Savable.load, recreate_from with and without a context) take turns and one loader configuration uses a loader that needs constructor arguments; a load must leave the bundle it was given unchanged; one program fails in on_finished after its future was resolved and must stay savable; bundles must be structurally identical (exceptions by type+args, traceback text ignored) and pid/state/raw_inputs/inputs/outputs/ctx/status/paused/creation_time/outcome accessors equal.',
        'tblib absent (traceback text ignored as the statement allows). A workchain WAITING on live futures is not savable and is counted, not judged. The custom loader is given in both save and load contexts.',
        'DESIGN.md section 3 C07',
    ),
    'C08': (
        'exploration',
        'property-based testing: metamorphic oracle (restored continuation chains = uninterrupted run), exhaustive over all single and double crash points of a catalogue plus Hypothesis-generated looping programs/outlines with up to 3 chained restores',
        'The reference run is checkpointed at every state entry and at the entry of every step function (a crash inside a step, before it had any effect); programs share one mutable context value under two keys and one family uses a non-identity input/output codec, one is constructed without inputs, all classes override init() and read the restored context there; for each chain of <=3 crash points the instance is abandoned, the checkpoint deserialised (pickle / deep copy / YAML) into a fresh event loop and world, continued with the remaining wake-up values, checkpointed again and so on; the concatenated step+predicate trace with arguments, outputs, ctx, final state and result must equal the reference: nothing re-executed, nothing skipped.',
        'Steps depend only on persisted state (inputs, ctx, continuation arguments); every restore uses a fresh deserialisation; workchains here register no live awaitables.',
        'DESIGN.md section 3 C08',
    ),
    'C11': (
        'exploration',
        'model-based property testing: bounded-exhaustive enumeration of a two-level spec family (~10^5 spec/input pairs) plus Hypothesis-generated spec trees and perturbed inputs, compared with an independent reference model of acceptance and of the parsed form',
        'For every (spec, inputs) pair the constructor must raise exactly when the reference model rejects; on acceptance `inputs` (as plain nested dict) must equal the model parse (defaults, callable defaults evaluated, populate_defaults=False namespaces left out, {} for namespaces with ports), every declared namespace level must refuse item assignment, raw_inputs must equal the given dict and the caller dict must be deep-equal to its pre-call copy with identical leaf objects. The same content and read-only levels are required of the process recreated from a Bundle; a quarter of the generated specs are adjusted after declaration through the port setters (default, valid_type, validator), the model judging the adjusted tree. Default factories include callable objects and functools.partial; after construction the caller adds a key to its dictionary and raw_inputs / inputs must not follow. Validators may reject with an empty message or have the deprecated one-argument signature.',
        'Plain dict inputs, never the empty tuple; values for a namespace are dicts, ints or None; declared defaults valid by construction (setter-assigned ones need not be); validators total; no namespace-level defaults.',
        'DESIGN.md section 3 C11',
    ),
    'C12': (
        'exploration',
        'model-based property testing: generated output specs x emission sequences, the reference model is consulted after every out() and at the finish',
        'After each out(path, value): accepted by the model => no exception, outputs equal the model outputs, listeners saw (path, value); rejected => raises (ValueError for value/type/validator/undeclared-port rejections) and outputs unchanged. At the end: FINISHED, result() is the returned value, future().result() equals outputs, is_successful/successful() equal the model validation of the collected outputs. Whole mappings are emitted onto declared namespaces (with and without explicit ports), and a quarter of the cases use a spec class whose port namespaces have another namespace separator (__ or /); a port-less namespace may be declared a second time with other options (the last declaration counts); the last emissions may be made from on_exit_running / on_finish, between the return of the last step and the entry of FINISHED; validators may reject with an empty message or have the one-argument signature.',
        'A path is never both leaf and namespace within a sequence; dynamic namespaces carry no namespace validator; a mapping emitted onto a declared namespace is the only emission into that subtree.',
        'DESIGN.md section 3 C12',
    ),
    'C14': (
        'exploration',
        'stateful / model-based property testing: generated operation histories applied to both persisters and to a dict model (differential + reference model)',
        'Histories of up to 40 save/load/list/delete/delete-pid/progress/run-loaded/poison/heal operations (poison makes a live process unserialisable so that its saves are refused; a refused save is not a save; save_purging lets the process delete its own checkpoints from the store while it is being saved; a third of the pickle operations may go through a second PicklePersister object on the same directory) over 3 live processes, a never-saved pid and 3 tags, for int, UUID and string pids (also strings differing only in non-word characters and integers whose decimal forms are prefixes of one another): every call result (or exception) of each persister must equal the dict model that keeps the harness-made deep copy from save time; loads must be structurally equal to that copy even after the live process progressed or a loaded copy was run to completion; listings compared as sets; the two persisters must agree. All pairs of operations after a fixed prefix are enumerated.',
        'pids/tags of one kind per history, separator-free strings; PicklePersister works in a private temporary directory, optionally a sub-directory whose name contains glob metacharacters ([ ] * ?) next to decoy directories a pattern reading of the name would match.',
        'DESIGN.md section 3 C14',
    ),
    'C15': (
        'exploration',
        'model-based property testing: enumerated rule sets over a prefix-colliding source tree plus Hypothesis-generated trees/rules/options, compared with an independent rule-selection model; metamorphic independence test by mutating both sides',
        'The destination port tree (names, kinds and every port attribute) after expose_inputs / expose_outputs / absorb must equal the model: exactly the selected ports under the target namespace, source namespace properties overridden by namespace options, non-colliding destination ports untouched, include+exclude and unsupported options rejected with ValueError; afterwards every settable attribute of every port on one side is changed and ports are added/removed, container-valued defaults are changed in place, and the other side must not change. A third of the generated cases and an enumerated family use spec classes with another namespace separator (__ or /), whose namespaces carry an attribute only the subclass knows: exposed nested namespaces keep the class and that attribute; a refused call (include with exclude) leaves the destination unchanged.',
        'No rule is an ancestor of another in the same set; colliding destination ports are replaced.',
        'DESIGN.md section 3 C15',
    ),
    'C19': (
        'exploration',
        'property-based testing: generated class shapes / member kinds / loader configurations with a round-trip oracle (members restored, save(recreated) = save(original)), a copy-at-save metamorphic test and loader-use counters',
        'Generated inheritance chains (<=4 levels, sibling branch) of Savable classes declared with @auto_persist; members over plain nested values, bound methods, nested Savables (depth 3) and SavableFutures in all four states; default / global custom / per-save custom loaders (also with a different loader installed globally), with and without a loader in the load context. Checked: declaration sets per class (no leakage), saved keys, every declared member restored by kind, deep mutation of the original after save() leaves the saved state untouched, custom loader recorded at save is the one resolving the class at load, tampered identifiers raise ValueError. A third of the cases first save and load another object of the family (saved with a different loader configuration) through a caller-owned load context that is then reused; a quarter declare the members of one class in its persist() hook instead of the decorator; a quarter save further members by hand through save_members()/load_members() from overridden state methods; half of the custom-loader contexts are built with copyextend(); a quarter of the cases define the classes again under the same names between save and load (the new definitions must be used); a loader with an empty allow-list in the load context must make the load raise ValueError, as must a class whose module fails to import; a loader that was global at save time and is only in the context at load time is in charge of nested objects too.',
        'Members are declared by the @auto_persist decorator, or by the persist() hook of a class whose ancestors declare nothing; custom loaders fall back to the default loader for foreign identifiers; futures are recreated on the loop given in the load context.',
        'DESIGN.md section 3 C19',
    ),
    'C20': (
        'exploration',
        'property-based testing with an innermost-outcome model: exhaustive enumeration of chain depth x terminal outcome x completion order x callback draining for three adapters, plus operation sequences on CancellableAction',
        'For unwrap_kiwi_future, plum_to_kiwi_future+unwrap, Process._schedule_rpc and sync / async subscribers behind convert_to_comm every chain of depth <=3 (quick) / <=4 and sampled 5 (thorough) of futures resolving to futures is completed in every order: the adapter future must stay pending until all levels are connected and then carry exactly the innermost value object, exception object or cancellation. create_task must deliver the coroutine result/exception once, also when that exception is a concurrent.futures CancelledError / InvalidStateError instance. create_task, Process._schedule_rpc and LoopCommunicator deliveries made from a real second thread (joined before looking) must wake the loop, also when the wrapper or create_task was not given the loop explicitly. create_task factories may raise before a coroutine exists. CancellableAction: function called at most once with the given arguments (also when it exits with a BaseException), outcome readable on the action, second run and run after cancel refused.',
        'Thread hand-offs are modelled as loop callbacks at generated positions; handler errors of _schedule_rpc are compared through __cause__.',
        'DESIGN.md section 3 C20',
    ),
    'C16': (
        'exploration',
        'property-based testing: differential twin-run oracle (remotely controlled process vs directly controlled twin at quiescent delivery points), handler-return-value comparison for in-step deliveries, broadcast-sequence invariant, injected broadcast faults',
        'An in-process kiwipy LocalCommunicator (bare, or wrapped in LoopCommunicator) carries RPC pause/play/kill/status sent by RemoteProcessThreadController or RemoteProcessController and broadcast pause_all/play_all/kill_all. All sequences of <=2 (quick) / <=3 (thorough) messages at quiescent points are enumerated for 5 catalogue programs: the deduplicated observable history (state, paused, status, outputs), the final outcome and every unwrapped reply must equal those of a twin that receives the equivalent direct call. In-step deliveries compare the reply with the recorded return value of the very pause/play/kill call. The state_changed.<from>.<to> broadcasts recorded by an independent subscriber must match the entered states once each, in order, sent by the pid; each of the first 6 broadcasts is made to fail with each tolerated exception and must leave the run unchanged; two, three or all announcements from an index on fail as well; message texts include the empty string; a user cleanup may raise at termination and one more status request after termination must be unroutable; a listener may close() the process from its termination notification (the last transition is still announced); the class kill() may answer with a future of a future and every RPC reply must be a final value, never a future of the process loop; a launched child announces its own transitions under its pid; either subscription of the process (RPC or broadcast) is made to time out and the other channel must keep working like the direct call; the process classes override get_status_info, so a status reply must carry the subclass entries; terminated processes must be unroutable.',
        'LocalCommunicator stands in for RabbitMQ (synchronous delivery; cross-thread hand-offs become loop callbacks at harness-chosen positions). Error replies are compared through __cause__. Messages sent after termination are unroutable while the twin call is a no-op.',
        'DESIGN.md section 3 C16',
    ),
    'C17': (
        'exploration',
        'stateful / model-based property testing: generated task histories against a model of replies, persister content and per-instance executed steps, for every launcher configuration',
        'ProcessLauncher is driven directly and through LoopCommunicator(LocalCommunicator) with every combination of persister (none / in-memory / pickle), loader (default / custom counting loader) and load context (given or not): create, launch and continue tasks with persist / nowait / tag flags over five process classes (one fails in on_finished after finishing), harness checkpoints under tags, resumes and unknown task types. Checked: replies (pid / outputs / process error / TaskRejected), that a created process never runs, that a continued instance executes exactly the steps after its checkpoint, persister keys, rejected tasks have no effect, the configured loader resolves classes. The load context contents and the launcher loop must reach every continued process; RemoteProcessController.execute_process is driven with nowait / no_reply; a class that only the registry loader of the launcher can name must make a persisting task fail up front. All single tasks and a family of task pairs are enumerated per configuration.',
        'pids are explicit constructor keyword arguments; a continue for an absent checkpoint must fail without running anything.',
        'DESIGN.md section 3 C17',
    ),
    'C18': (
        'exploration',
        'property-based testing over generated process sets and FIFO interleavings on the harness-owned loop; Process.current() sampled at every user-code point and between callbacks',
        'Up to 4 generated processes with async steps, gates, launched children, re-entrantly executed processes (nest_asyncio on the harness loop, in dedicated worker processes), call_soon callbacks (also scheduled on the parent from the step of a child), children stepped in the task of the parent, control requests on children, self-pauses, kill/pause requests issued by own hooks of the process during a transition, a coroutine callback that steps a helper process after its own process has closed, workchains whose awaited child fails or is killed, a fire-and-forget child finalised by the garbage collector in the middle of another step, callbacks (plain and async callable objects) scheduled from outside any process code, and an application-defined WAITING state that runs process code in execute() run on one loop with staggered starts: current() must be the running process at every step entry, after every await, in every callback, after launch() and after a nested execute(), and in every lifecycle hook the run produces by itself; the harness must see None between callbacks. All pairs (quick) / triples (thorough) of 6 catalogue shapes at 3 start offsets are enumerated.',
        'Construction-time hooks and hooks triggered by external pause/play/kill run in the caller and are not sampled.',
        'DESIGN.md section 3 C18',
    ),
}

PENDING = {f'C{n:02d}': 'check not built yet in this round (see DESIGN.md section 9 for the build order)' for n in range(1, 21)}


# what the seventh round of seeded changes added to the generators and oracles (appended to the level text)
ROUND7 = {
    'C01': 'Listeners that act from inside a notification (unsubscribe themselves, subscribe another listener, close, kill / pause / play, raise asyncio.CancelledError from the notification about the end, checkpoint the process while its terminal state cannot be serialised); a terminal state a listener saw must be the state the process keeps.',
    'C02': 'Listeners that unsubscribe / subscribe from inside notifications; outputs emitted from the hooks around the end of the last step (on_finish, on_finished, on_exit_running, on_exiting).',
    'C03': 'A listener failing in a notification about the end first takes itself off the process.',
    'C05': 'Kill requests withdrawn at once (event killw) before pause / play; a listener that answers the played notification with a new pause (status restored by the second play); paused-after-play also for plays issued by listeners, hooks and steps.',
    'C06': 'Pause / play requested by listeners and lifecycle hooks around the wake-up; kill / pause requests that a hook or listener drops at once; a woken process must not report paused after a play without a new pause request.',
    'C07': 'Every other point is saved again as a dereferenced bundle; a process parked with Wait(msg, data) without continuation.',
    'C09': 'Chains on a loop of their own (the default loop of the thread is another one that never runs, construction outside any running loop) that wait for children launched from steps: nothing may be scheduled on the default loop; base-class state maps are built before any subclass is used.',
    'C10': 'The same own-loop configuration with children launched by the step or constructed beforehand outside any running loop.',
    'C11': 'Namespaces declared with a nested name through PortNamespace.create_port_namespace with options (implicit default parents), all 32 namespace shapes.',
    'C12': 'Output namespaces declared with a nested name through create_port_namespace with options.',
    'C14': 'Falsy pids (0 and the empty string) with the clause that a process keeps the pid it was given; store directories that do not exist yet (one and three missing levels).',
    'C15': 'Arguments given positionally in their documented order; namespace given as the empty string; a source port re-filed under another key.',
    'C17': 'Continue tasks sent through RemoteProcessThreadController / RemoteProcessController; execute_process for a class that only the given registry loader can name; pid 0.',
    'C18': 'Requests made from the hooks of another request being carried out (on_paused / on_pausing answering a deferred pause with kill or play); process classes that compare by value or are falsy.',
    'C19': 'Loading for another loop than the one that is current and running: every restored future must live on the loop named in the load context.',
    'C20': 'Broadcast subscribers behind kiwipy.BroadcastFilter through convert_to_comm (subject and sender filters, positional and keyword delivery); the reply of Process.broadcast_receive to play / pause / kill intents.',
}


ROUND8 = {
    'C01': 'Hooks that use the process between the entry of the terminal state and close() (out, add_cleanup, remove_process_listener); directly executed kill / fail whose own hooks ask for another transition.',
    'C02': 'A process with a loop of its own that is constructed and controlled from synchronous code while no loop runs (nothing may land on the default loop); a required output that is never emitted; on_process_finished is handed the outputs.',
    'C03': 'Own-loop scenarios: the future that replaces the outcome after a failing hook lives on the loop of the process.',
    'C04': 'Own-loop scope: kills and future cancellations from synchronous code while no loop runs.',
    'C07': 'A loaded process that goes on emitting must not change the saved state it was loaded from; custom loaders are falsy objects.',
    'C08': 'Every single crash point also with a loop of its own, loaded and woken from synchronous code.',
    'C11': 'Validators that rely on the declared type; falsy defaults under namespaces whose defaults are not populated.',
    'C12': 'Type-relying validators; a spec class with its own output port class (OUTPUT_PORT_TYPE) that refuses None.',
    'C13': 'First step started with arguments through create_initial_state(); own-loop cases (construction, loading of every checkpoint, wake-ups from synchronous code).',
    'C17': 'execute_process through RemoteProcessThreadController, also against a launcher that must refuse the create half.',
    'C18': 'Hooks of externally requested pause / kill that the stepping process carries out itself; helper tasks started by a step keep seeing the same current process (isolation between contexts).',
    'C19': 'A member holding a bound method of another object makes save() raise TypeError; falsy loaders.',
    'C20': 'wrap_communicator on an already wrapped communicator for the same and for another loop.',
}


ROUND9 = {
    'C06': 'Wake-up values that are bare sentinel objects; every delivered wake-up value must reach a continuation (absolute clause next to the twin run).',
    'C01': 'Observer removal after close; a checkpointing listener with an unserialisable output.',
    'C08': 'A chain class with its own bundle key for the outline position.',
    'C10': 'Awaited children that are killed while they wait (the earlier kill cases were vacuous); the future handed to the barrier must resolve when the child ends.',
    'C12': 'An announced output is among process.outputs when the listeners are told.',
    'C13': 'A bare UnsuccessfulResult().',
    'C14': 'A never-saved pid that is too long for a file name.',
    'C15': 'include / exclude both given with one of them empty; arguments left out instead of passed as None; a second expose into a copied namespace with mixed namespace classes.',
    'C16': 'A work chain under remote control; both subscriptions are given back at termination.',
    'C17': 'A globally installed loader with a launcher built without loader=.',
    'C18': 'call_soon with positional and keyword arguments.',
    'C19': 'SavableFuture subclasses, falsy exceptions, a dict-backed loader asked for an unknown identifier.',
    'C20': 'no_reply deliveries through the coroutine controller (confirmed and failed); broadcast intents without a text.',
}


ROUND10 = {
    'C08': 'A work chain that waits through a plain Wait command, checkpointed while it waits.',
    'C03': 'Hooks of a nested request (a listener answering the paused notification with play) fail; EXCEPTED endings after requester faults are compared with the fault-free run.',
    'C09': 'A spec class whose get_outline() brackets the declared outline with bookkeeping steps.',
    'C06': 'Process classes with a WAITING state class of their own.',
    'C07': 'A listener put on the loaded process; a checkpoint between future().cancel() and the kill; explicitly empty inputs.',
    'C11': 'Ports re-filed under another key of their namespace.',
    'C12': 'Re-filed output ports; a namespace class of its own whose dynamic rule refuses None, also for namespaces created on the fly.',
    'C16': 'The coroutine controller returns the answer, not a future (bare communicator).',
    'C17': 'Failing task-body helpers; the helper default for nowait; launches through RemoteProcessController.launch_process.',
    'C19': 'User metadata written by classes (set_custom_meta); direct recreate_from with a loop-only context.',
    'C20': 'task_send(no_reply=True) through the loop wrapper.',
}


ROUND11 = {
    'C11': 'A spec class with an input port class of its own (INPUT_PORT_TYPE) that refuses None.',
    'C12': 'Namespaces created on the fly under optional / required hosts with validators, by refused and accepted emissions.',
    'C14': 'Keys whose id and tag spell the same text when joined by _ or -; a memory persister constructed with an object loader.',
    'C19': 'A recorded loader that cannot be found at load time (recorded-loader-bypassed).',
}


ROUND12 = {
    'C02': 'Kill and pause requests without a text (the KilledError text is the empty kill text).',
    'C20': 'create_task from a thread without an event loop must not raise, and its future lives on the named loop.',
}


def main():
    checks = []
    for pid, (level, technique, text, note, ref) in sorted(CHECKS.items()):
        if pid in ROUND7:
            text = text.rstrip() + ' Added after round 7 of the seeded changes: ' + ROUND7[pid]
        if pid in ROUND8:
            text = text.rstrip() + ' Added after round 8: ' + ROUND8[pid]
        if pid in ROUND9:
            text = text.rstrip() + ' Added after round 9: ' + ROUND9[pid]
        if pid in ROUND10:
            text = text.rstrip() + ' Added after round 10: ' + ROUND10[pid]
        if pid in ROUND11:
            text = text.rstrip() + ' Added after round 11: ' + ROUND11[pid]
        if pid in ROUND12:
            text = text.rstrip() + ' Added after round 12: ' + ROUND12[pid]
        checks.append(
            {
                'property_id': pid,
                'quick_cmd': f'./check {pid} --tier quick',
                'thorough_cmd': f'./check {pid} --tier thorough',
                'evidence_file': f'/verif/evidence/{pid}.json',
                'replay_cmd_template': f'./check {pid} --replay {{path}}',
                'engine': 'pv',
                'level_claimed': {'category': level, 'text': text, 'design_ref': ref},
                'level_note': note,
                'technique': technique,
            }
        )
    manifest = {
        'version': 1,
        'setup_cmd': '/venv/bin/pip install --no-index --find-links /opt/veriftools/wheels hypothesis >/dev/null 2>&1; /venv/bin/python -c "import hypothesis, plumpy"',
        'hooks': {
            'guard': 'PLUMPY_VERIF',
            'enable': 'no source hooks are needed: the harness observes through public API; ./check exports PLUMPY_VERIF=1 (reserved, unused by /repo)',
            'baseline_off_cmd': 'cd /repo && env -u PLUMPY_VERIF /venv/bin/python -m pytest -ra -q -p no:cacheprovider --timeout=900 --continue-on-collection-errors',
            'source_commits': [],
            'add_only': True,
        },
        'engines': [
            {
                'name': 'pv',
                'path': 'harness/pv',
                'serves_properties': sorted(CHECKS),
                'kind_free_text': 'property-based testing: harness-owned asyncio schedule (StepLoop), programs-as-data interpreted by generated Process/WorkChain classes, Hypothesis strategies + small-scope exhaustive enumeration on 16 cores, explicit oracles (reference models, twin runs, round trips, trace invariants), ddmin shrinking to JSON replay files',
            }
        ],
        'checks': checks,
        'notes': 'Entry point ./check <ID> --tier quick|thorough [--seed N] | --replay FILE. VERIF_SEED and VERIF_TIER are honoured. Exit 2 = harness error.',
        'not_applicable': [{'property_id': p, 'reason': r} for p, r in sorted(PENDING.items()) if p not in CHECKS],
    }
    with open(os.path.join(ROOT, 'MANIFEST.json'), 'w') as handle:
        json.dump(manifest, handle, indent=1)
        handle.write('\n')


if __name__ == '__main__':
    main()
