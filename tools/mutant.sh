#!/bin/bash
# tools/mutant.sh <patch.diff> <ID>...   -- run quick checks against a scratch worktree of /repo with the patch applied
patch=$(realpath "$1"); shift
dir=$(mktemp -d /tmp/mut.XXXXXX)
git -C /repo worktree add -q --detach "$dir/wt" HEAD || exit 2
if ! git -C "$dir/wt" apply "$patch"; then echo "PATCH DOES NOT APPLY"; git -C /repo worktree remove --force "$dir/wt"; rm -rf "$dir"; exit 2; fi
for id in "$@"; do
  out=$(VERIF_REPO="$dir/wt" ./check $id --tier ${TIER:-quick} 2>&1); rc=$?
  echo "[$id rc=$rc] $(echo "$out" | grep -E '^C[0-9]+ tier' | sed 's/excluded_known.*wall/wall/')"
  echo "$out" | grep -E 'clause=|HARNESS' | cut -c1-220 | head -5
done
git -C /repo worktree remove --force "$dir/wt"; rm -rf "$dir"
