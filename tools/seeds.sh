#!/bin/bash
# tools/seeds.sh <ID> <tier> seed...   -- run a check at several seeds, print one line each
id=$1; tier=$2; shift 2
for s in "$@"; do
  out=$(VERIF_SEED=$s ./check $id --tier $tier 2>&1); rc=$?
  echo "seed=$s rc=$rc $(echo "$out" | grep -E '^C[0-9]+ tier' | head -1)"
  [ $rc -ne 0 ] && echo "$out" | grep -E 'VIOLATION|clause=|HARNESS' | head -10
done
exit 0
