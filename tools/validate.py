#!/venv/bin/python
import json, glob, os, sys, jsonschema
ROOT = os.path.dirname(os.path.dirname(os.path.abspath(__file__)))
man = json.load(open(os.path.join(ROOT, 'MANIFEST.json')))
jsonschema.validate(man, json.load(open('/root/.vp/MANIFEST.schema.json')))
ev_schema = json.load(open('/root/.vp/EVIDENCE.schema.json'))
bad = 0
for chk in man['checks']:
    path = chk['evidence_file']
    if not os.path.exists(path):
        print('MISSING evidence', path); bad += 1; continue
    ev = json.load(open(path))
    try:
        jsonschema.validate(ev, ev_schema)
        assert ev['level'] == chk['level_claimed']['category'], 'level mismatch'
        print(f"ok {chk['property_id']} tier={ev['tier']} evals={ev['coverage'].get('evaluations')} nontrivial={ev['coverage'].get('distinct_nontrivial')} wall={ev['wall_s']}")
    except Exception as exc:
        print('INVALID', path, str(exc)[:300]); bad += 1
props = {json.loads(l)['id'] for l in open(os.path.join(ROOT, 'properties.jsonl'))}
claimed = {c['property_id'] for c in man['checks']}
na = {n['property_id'] for n in man.get('not_applicable', [])}
print('claimed', len(claimed), 'not_applicable', len(na), 'unaccounted', sorted(props - claimed - na), 'overlap', sorted(claimed & na))
sys.exit(1 if bad else 0)
