#!/venv/bin/python
"""Confirm a seeded change and run the checks against it.

tools/seed_confirm.py <srcdir> <property-id> [--name NAME] [--checks C04,C05] [--tier quick|thorough] [--keep]

<srcdir> holds patch.diff, demo.py, notes.md (written by a sub-agent that saw only the property text).  In a fresh
scratch worktree of /repo HEAD (outside /repo and /verif, removed afterwards) this
  1. applies the patch, runs the repository's pinned suite (186 tests must still pass),
  2. runs demo.py with the patch (must exit 1) and without it (must exit 0),
  3. runs the given checks (default: the property's own) with VERIF_REPO pointing at the patched worktree,
and, with --keep, stores patch.diff, the demonstration and meta.json under /verif/seeded/<NAME>/.
"""
import argparse
import json
import os
import shutil
import subprocess
import sys
import tempfile
import time

ROOT = os.path.dirname(os.path.dirname(os.path.abspath(__file__)))


def sh(cmd, cwd=None, env=None, timeout=1800):
    proc = subprocess.run(cmd, shell=True, cwd=cwd, env=env, capture_output=True, text=True, timeout=timeout)
    return proc.returncode, proc.stdout + proc.stderr


def main():
    ap = argparse.ArgumentParser()
    ap.add_argument('srcdir')
    ap.add_argument('prop')
    ap.add_argument('--name')
    ap.add_argument('--checks')
    ap.add_argument('--tier', default='quick')
    ap.add_argument('--keep', action='store_true')
    args = ap.parse_args()
    name = args.name or args.prop
    checks = args.checks.split(',') if args.checks else [args.prop]
    patch = os.path.join(args.srcdir, 'patch.diff')
    demo = os.path.join(args.srcdir, 'demo.py')
    for path in (patch, demo):
        if not os.path.exists(path):
            print('MISSING', path)
            return 2
    tmp = tempfile.mkdtemp(prefix='seedc.')
    wt = os.path.join(tmp, 'wt')
    result = {'property': args.prop, 'name': name}
    try:
        rc, out = sh(f'git -C /repo worktree add -q --detach {wt} HEAD')
        if rc:
            print(out)
            return 2
        env = dict(os.environ, PYTHONPATH=f'{wt}/src', PYTHONHASHSEED='0')
        # demo without the patch
        rc0, out0 = sh(f'timeout 120 /venv/bin/python {demo}', cwd=tmp, env=env)
        result['demo_without_patch_rc'] = rc0
        rc, out = sh(f'git -C {wt} apply {patch}')
        if rc:
            print('PATCH DOES NOT APPLY to /repo HEAD:\n', out)
            result['applies'] = False
            print(json.dumps(result))
            return 3
        result['applies'] = True
        rc, files = sh(f'git -C {wt} diff --stat')
        result['diffstat'] = files.strip().splitlines()[-1] if files.strip() else ''
        rc1, out1 = sh(f'timeout 120 /venv/bin/python {demo}', cwd=tmp, env=env)
        result['demo_with_patch_rc'] = rc1
        t0 = time.time()
        rc, out = sh(f'{ROOT}/tools/repo_tests.sh {wt}', env=dict(os.environ))
        result['tests'] = out.strip().splitlines()[0] if out.strip() else ''
        result['tests_ok'] = rc == 0
        result['confirmed'] = bool(rc0 == 0 and rc1 == 1 and rc == 0)
        detections = {}
        for check in checks:
            t0 = time.time()
            rc, out = sh(f'./check {check} --tier {args.tier}', cwd=ROOT, env=dict(os.environ, VERIF_REPO=wt), timeout=7200)
            clauses = [line.strip()[:300] for line in out.splitlines() if line.strip().startswith('clause=')]
            detections[check] = {'rc': rc, 'wall_s': round(time.time() - t0, 1), 'tier': args.tier, 'clauses': clauses[:6]}
            if rc == 2:
                detections[check]['error'] = out[-600:]
        result['detections'] = detections
        result['detected_by'] = [c for c, d in detections.items() if d['rc'] == 1]
        print(json.dumps(result, indent=1))
        if args.keep and result['confirmed']:
            dest = os.path.join(ROOT, 'seeded', name)
            os.makedirs(dest, exist_ok=True)
            notes = os.path.join(args.srcdir, 'notes.md')
            if os.path.abspath(args.srcdir) != os.path.abspath(dest):
                shutil.copy(patch, os.path.join(dest, 'patch.diff'))
                shutil.copy(demo, os.path.join(dest, 'demo.py'))
                if os.path.exists(notes):
                    shutil.copy(notes, os.path.join(dest, 'notes.md'))
            meta = {
                'breaks_property': args.prop,
                'origin': 'sub-agent given only the property text and a scratch worktree of /repo (nothing from /verif)',
                'needs_to_manifest': open(notes).read()[:1500] if os.path.exists(notes) else '',
                'confirmed': {
                    'existing_tests_pass_with_patch': result['tests'],
                    'demo_exit_with_patch': rc1,
                    'demo_exit_without_patch': rc0,
                    'how': 'tools/seed_confirm.py in a fresh scratch worktree of /repo HEAD (removed afterwards)',
                },
                'checks_run': detections,
                'detected_by': result['detected_by'],
            }
            with open(os.path.join(dest, 'meta.json'), 'w') as handle:
                json.dump(meta, handle, indent=1)
            print('kept in', dest)
        return 0
    finally:
        sh(f'git -C /repo worktree remove --force {wt}')
        shutil.rmtree(tmp, ignore_errors=True)


if __name__ == '__main__':
    sys.exit(main())
