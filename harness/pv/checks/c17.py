"""C17 -- launcher tasks do what they say or are rejected."""

import asyncio
import shutil
import tempfile

import kiwipy
from hypothesis import strategies as st
from plumpy import communications, loaders, persistence, process_comms

from .. import gen, loaders_h, world
from ..programs import InjectedFault, ProgError, make_class
from ..steploop import StepLoop

ID = 'C17'
LEVEL = 'exploration'
RULE = (
    'cases = launcher configuration (persister: none | in-memory | pickle; loader: default | custom; load context given or not; tasks sent directly '
    'to the launcher or through LoopCommunicator(LocalCommunicator)) x history of <=12 operations create / launch / '
    'continue with persist / nowait / tag flags over four process classes (finishes, waits once, waits twice, fails), '
    'harness checkpoints of a waiting process under tags, resumes, and an unknown task type; the oracle is a model of '
    'replies, persister content and the steps each instance must execute; non-trivial = the history contains a continue, '
    'a rejected task, or a persisted launch/create; distinct = SHA-1 of the case JSON'
)
ASSUMPTIONS = [
    'pids are given explicitly in the constructor keyword arguments',
    'a continue task for a checkpoint that does not exist must fail (any exception) without running anything',
]
BUDGET = {
    'quick': {'enum': ['single', 'pairs'], 'hyp': 1200, 'shards': 8},
    'thorough': {'enum': ['single', 'pairs'], 'hyp': 40000, 'shards': 16},
}
S = gen.S
PROGS = {
    'F': {'steps': [S([['out', 'x', 1]], ['value', 5])]},
    'W': {'steps': [S([['out', 'a', 1]], ['wait', 1, 'w', None]), S([['out', 'b', 2]], ['value', 7])]},
    'W2': {'steps': [S([['out', 'a', 1]], ['wait', 1, None, None]), S([['yield'], ['out', 'b', 2]], ['wait', 2, None, None], True), S([['out', 'c', 3]], ['value', 9])]},
    'X': {'steps': [S([['out', 'a', 1]], ['raise', 'fail'])]},
    # finishes, but its on_finished hook raises afterwards (armed per launch): ends EXCEPTED after having set its outputs
    'H': {'steps': [S([['out', 'h', 1]], ['value', 6])], 'raise_in_hook': ['on_finished', 'post']},
}
STEPS = {'F': ['run'], 'W': ['run', 's1'], 'W2': ['run', 's1', 's2'], 'X': ['run'], 'H': ['run'], 'U': ['run']}
OUTPUTS = {'F': {'x': 1}, 'W': {'a': 1, 'b': 2}, 'W2': {'a': 1, 'b': 2, 'c': 3}, 'H': {'h': 1}, 'U': {'x': 1}}
TAGS = [None, 'a', 'b']


class ConfirmingCommunicator(kiwipy.LocalCommunicator):
    """LocalCommunicator hands back nothing for a task sent with no_reply; a broker-backed communicator hands back a
    future for the delivery confirmation, which is what the controllers wait for."""

    def task_send(self, task, no_reply=False):
        result = super().task_send(task, no_reply)
        if no_reply:
            confirmation = kiwipy.Future()
            confirmation.set_result(None)
            return confirmation
        return result


class AnonymousCommunicator(kiwipy.LocalCommunicator):
    """Histories continue the same pid several times while earlier instances are still alive; the identifiers under which
    processes subscribe are not this check's business (C16), so subscriptions are taken anonymously here."""

    def add_rpc_subscriber(self, subscriber, identifier=None):
        return super().add_rpc_subscriber(subscriber, None)

    def add_broadcast_subscriber(self, subscriber, identifier=None):
        return super().add_broadcast_subscriber(subscriber, None)


def enumerate_cases(tier, scope):
    configs = [(p, loader, via, lc) for p in ('none', 'memory', 'pickle') for loader in ('default', 'custom') for via in ('direct', 'comm') for lc in ('none', 'given')]
    configs += [(p, 'global', via, 'none') for p in ('memory', 'pickle') for via in ('direct', 'comm')]
    if scope == 'single':
        for p in ('memory', 'pickle', 'none'):
            for via in ('direct', 'comm'):
                for op in (['create', 'U', 1, True], ['launch', 'U', 1, True, False], ['launch', 'U', 1, True, True], ['launch', 'U', 1, False, False], ['create', 'U', 1, False]):
                    yield {'persister': p, 'loader': 'registry', 'via': via, 'load_context': 'none', 'ops': [op, ['continue', 1, None, False]]}
                for nowait in (False, True):
                    yield {'persister': p, 'loader': 'registry', 'via': via, 'load_context': 'none', 'ops': [['execute', 'U', 1, nowait, False]]}
                # a pid that is falsy is a pid
                for first in (['launch', 'W', 0, True, True], ['create', 'W', 0, True], ['launch', 'F', 0, True, False]):
                    for loader in ('default', 'custom'):
                        yield {'persister': p, 'loader': loader, 'via': via, 'load_context': 'none', 'ops': [first, ['continue', 0, None, False]]}
    singles = []
    for prog in PROGS:
        for persist in (False, True):
            singles.append(['create', prog, 1, persist])
            for nowait in (False, True):
                singles.append(['launch', prog, 1, persist, nowait])
            if prog in ('W', 'F'):
                singles.append(['launch', prog, 1, persist, 'default'])
    singles += [['continue', 1, None, False], ['continue', 1, 'a', True], ['bogus']]
    singles += [['execute', 'F', 1, nowait, no_reply] for nowait in (False, True) for no_reply in (False, True)]
    if scope == 'single':
        for p in ('memory', 'none'):
            for prog in ('F', 'X', 'W'):
                for persist in (False, True):
                    for nowait in (False, True):
                        yield {'persister': p, 'loader': 'default', 'via': 'comm', 'load_context': 'none', 'client': 'async', 'ops': [['launch', prog, 1, persist, nowait]]}
        for p in ('memory', 'pickle', 'none'):
            for prog in ('F',):
                for nowait in (False, True):
                    for no_reply in (False, True):
                        yield {'persister': p, 'loader': 'default', 'via': 'comm', 'load_context': 'none', 'client': 'thread', 'ops': [['execute', prog, 1, nowait, no_reply]]}
    if scope == 'single':
        for cfg in configs:
            for op in singles:
                yield {'persister': cfg[0], 'loader': cfg[1], 'via': cfg[2], 'load_context': cfg[3], 'ops': [op]}
    else:
        firsts = [['launch', 'W2', 1, True, True], ['create', 'W', 1, True], ['launch', 'W', 1, False, False], ['create', 'F', 2, True]]
        seconds = [
            [['continue', 1, None, False]],
            [['continue', 1, None, True], ['resume', 1]],
            [['checkpoint', 1, 'a'], ['resume', 1], ['checkpoint', 1, 'b'], ['continue', 1, 'a', False]],
            [['checkpoint', 1, 'a'], ['resume', 1], ['checkpoint', 1, 'b'], ['continue', 1, 'b', True]],
            [['continue', 2, None, False]],
            [['continue', 1, 'b', False]],
            [['resume', 1], ['continue', 1, None, False], ['resume', 1]],
        ]
        for cfg in configs:
            for first in firsts:
                for second in seconds:
                    yield {'persister': cfg[0], 'loader': cfg[1], 'via': cfg[2], 'load_context': cfg[3], 'ops': [first] + second}
                    if cfg[2] == 'comm' and cfg[3] == 'none':
                        for client in ('thread', 'async'):
                            yield {'persister': cfg[0], 'loader': cfg[1], 'via': cfg[2], 'load_context': cfg[3], 'client': client, 'ops': [first] + second}
                    if second is seconds[0] and cfg[2] == 'direct':
                        yield {'persister': cfg[0], 'loader': cfg[1], 'via': cfg[2], 'load_context': cfg[3], 'launcher_loop': 'none', 'ops': [first] + second}


@st.composite
def _cases(draw, tier):
    n = draw(st.integers(1, 12))
    ops = []
    for _ in range(n):
        kind = draw(st.sampled_from(['create', 'launch', 'launch', 'continue', 'continue', 'checkpoint', 'resume', 'resume', 'bogus', 'execute']))
        pid = draw(st.integers(1, 3))
        if kind == 'create':
            ops.append(['create', draw(st.sampled_from(list(PROGS))), pid, draw(st.booleans())])
        elif kind == 'launch':
            ops.append(['launch', draw(st.sampled_from(list(PROGS))), pid, draw(st.booleans()), draw(st.booleans())])
        elif kind == 'continue':
            ops.append(['continue', pid, draw(st.sampled_from(TAGS)), draw(st.booleans())])
        elif kind == 'checkpoint':
            ops.append(['checkpoint', pid, draw(st.sampled_from(TAGS))])
        elif kind == 'resume':
            ops.append(['resume', pid])
        elif kind == 'execute':
            ops.append(['execute', 'F', pid + 10 * len(ops), draw(st.booleans()), draw(st.booleans())])  # a fresh pid each time
        else:
            ops.append(['bogus'])
    return {
        'persister': draw(st.sampled_from(['none', 'memory', 'memory', 'pickle'])),
        'loader': draw(st.sampled_from(['default', 'custom'])),
        'via': draw(st.sampled_from(['direct', 'comm'])),
        'load_context': draw(st.sampled_from(['none', 'given'])),
        'launcher_loop': draw(st.sampled_from(['given', 'none'])),
        'client': draw(st.sampled_from([None, None, 'thread', 'async'])),
        'ops': ops,
    }


def strategy(tier):
    return _cases(tier)


# ---------------------------------------------------------------------------------------------
def _fut_outcome(fut):
    """Unwrap nested (kiwi / asyncio) futures as far as they are resolved."""
    for _ in range(6):
        if not fut.done():
            return ('pending',)
        if fut.cancelled():
            return ('cancelled',)
        exc = fut.exception()
        if exc is not None:
            return ('raise', exc)
        res = fut.result()
        if isinstance(res, (kiwipy.Future, asyncio.Future)):
            fut = res
            continue
        return ('ok', res)
    return ('pending',)


def execute(case):
    viol = []
    classes = set()

    def v(clause, detail):
        viol.append({'clause': clause, 'detail': detail})

    tmpdir = tempfile.mkdtemp(prefix='pv17-')
    loop = StepLoop()
    asyncio.set_event_loop(loop)
    w = world.reset(loop)
    prev_loader = loaders.get_object_loader()
    custom = loaders_h.RegistryLoader() if case['loader'] == 'registry' else loaders_h.TagLoader()
    loaders_h.TagLoader.reset()
    hist = []
    try:
        persister = None
        if case['persister'] == 'memory':
            persister = persistence.InMemoryPersister()
        elif case['persister'] == 'pickle':
            persister = persistence.PicklePersister(tmpdir)
        loader = custom if case['loader'] in ('custom', 'registry') else None
        if case['loader'] == 'global':
            # the application installed its loader globally: a launcher that is not given one uses that, like the helpers
            # that name the class in the task body do
            loaders.set_object_loader(custom)
        with loop.as_running():
            # what the caller puts into the load context reaches the continued processes: here a communicator of its own
            ctx_comm = AnonymousCommunicator() if case.get('load_context') == 'given' else None
            load_context = persistence.LoadSaveContext(harness_note='given', communicator=ctx_comm) if case.get('load_context') == 'given' else None
            launcher = process_comms.ProcessLauncher(loop=None if case.get('launcher_loop') == 'none' else loop, persister=persister, load_context=load_context, loader=loader)
            comm = None
            if case['via'] == 'comm':
                inner_comm = ConfirmingCommunicator()
                comm = communications.LoopCommunicator(inner_comm, loop)
                comm.add_task_subscriber(launcher)
        classes_by_prog = {name: make_class(prog) for name, prog in PROGS.items()}
        # a process class that cannot be imported by name (made by a factory): only the launcher's registry loader knows it
        from ..programs import ProgBase, _make_step

        unreg = type('P_factory_made', (ProgBase,), {'PROGRAM': PROGS['F'], '__module__': 'pv.gen_classes', 'run': _make_step(0, False)})
        classes_by_prog['U'] = unreg
        if isinstance(custom, loaders_h.RegistryLoader):
            custom.registry['U'] = unreg
        store = {}  # (pid, tag) -> (prog, steps done)
        instances = []  # model records: {'proc', 'prog', 'base', 'started', 'origin'}
        replies = []  # (op, future, expectation dict)

        def send(body):
            with loop.as_running():
                if comm is not None:
                    return comm.task_send(body)
                return loop.create_task(launcher(None, body))

        def known_instances():
            return w.extra.get('instances', [])

        def adopt_new(prog, base, started, origin, before):
            new = known_instances()[before:]
            for proc in new:
                instances.append({'proc': proc, 'prog': prog, 'base': base, 'started': started, 'origin': origin})
                if origin == 'continue' and prog != '?':
                    # a continued process lives on the launcher's loop (the current one if none was named) and has what
                    # the caller's load context carries
                    if proc.loop is not loop:
                        v('continued-process-loop', f'pid {proc.pid}: the continued process has loop {proc.loop!r}')
                    if ctx_comm is not None and proc._communicator is not ctx_comm:
                        v('load-context-dropped', f'pid {proc.pid}: the communicator of the given load context did not reach the continued process (it has {proc._communicator!r})')
            return new

        def run_until(pred, max_ticks=3000):
            n = 0
            while n < max_ticks and not pred():
                if not loop.step_one():
                    break
                n += 1

        for opno, op in enumerate(case['ops']):
            kind = op[0]
            where = f'op #{opno} {op}'
            before = len(known_instances())
            loads_before = loaders_h.TagLoader.loads
            if kind in ('create', 'launch'):
                prog, pid, persist = op[1], op[2], op[3]
                nowait = op[4] if kind == 'launch' else None
                ident_loader = custom if loader is not None else None
                try:
                    process_comms.create_launch_body(classes_by_prog[prog], init_kwargs={'pid': pid}, persist=persist, loader=ident_loader)
                except Exception as exc:  # noqa: BLE001
                    if not (prog == 'U' and ident_loader is None):
                        v('task-body-raised', f'{where}: building the task body with the given loader raised {type(exc).__name__}: {exc}')
                        hist.append(op)
                        break
                if kind == 'create':
                    body = process_comms.create_create_body(classes_by_prog[prog], init_kwargs={'pid': pid}, persist=persist, loader=ident_loader)
                elif nowait == 'default':
                    # the helper's own default for nowait (True: the reply is the pid, the caller does not wait for the end)
                    body = process_comms.create_launch_body(classes_by_prog[prog], init_kwargs={'pid': pid}, persist=persist, loader=ident_loader)
                    nowait = True
                else:
                    body = process_comms.create_launch_body(classes_by_prog[prog], init_kwargs={'pid': pid}, persist=persist, loader=ident_loader, nowait=nowait)
                if kind == 'launch' and case.get('client') == 'async' and comm is not None and op[4] != 'default':
                    # the launch is requested through the coroutine controller instead of a hand-made task body
                    classes.add('client:controller')
                    with loop.as_running():
                        fut = loop.create_task(process_comms.RemoteProcessController(comm).launch_process(classes_by_prog[prog], init_kwargs={'pid': pid}, persist=persist, loader=ident_loader, nowait=nowait))
                        fut._pv_owned = True
                else:
                    fut = send(body)
                unpersistable = prog == 'U' and persist and persister is not None
                if unpersistable:
                    # asked to persist a process whose class the persister cannot name: the task fails up front, the
                    # process is not run and nothing is stored
                    classes.add('unpersistable-class')
                    run_until(lambda: _fut_outcome(fut)[0] != 'pending')
                    loop.drain()
                    out = _fut_outcome(fut)
                    new = adopt_new(prog, 0, False, kind, before)
                    if out[0] != 'raise':
                        v('unpersistable-task-honoured', f'{where}: the class cannot be named by the persister, but the reply is {out!r}')
                    hist.append(op)
                    if viol:
                        break
                    continue
                rejected = persist and persister is None
                if kind == 'create' or nowait or rejected:
                    run_until(lambda: _fut_outcome(fut)[0] != 'pending')
                    out = _fut_outcome(fut)
                    new = adopt_new(prog, 0, kind == 'launch', kind, before)
                    if rejected:
                        classes.add('rejected')
                        if out[0] != 'raise' or not isinstance(out[1], kiwipy.TaskRejected):
                            v('not-rejected', f'{where}: persist without a persister gave {out[:1]} {out[1:]!r}')
                        if new:
                            v('rejected-task-had-effect', f'{where}: a process was constructed')
                    else:
                        if out != ('ok', pid):
                            v('reply', f'{where}: reply {out!r}, expected the pid {pid}')
                        if len(new) != 1:
                            v('instances', f'{where}: {len(new)} processes were constructed')
                        elif new[0].has_terminated() and kind == 'launch' and (case['via'] == 'direct' or prog in ('W', 'W2')):
                            # through the communicator the reply travels over several loop callbacks, during which a
                            # process that needs no wake-up may legitimately finish
                            v('nowait-reply-late', f'{where}: the pid was returned only after the process terminated')
                else:
                    loop.drain()
                    new = adopt_new(prog, 0, True, kind, before)
                    if len(new) != 1:
                        v('instances', f'{where}: {len(new)} processes were constructed')
                    replies.append((where, fut, {'prog': prog, 'proc': new[0] if new else None}))
                if not rejected and persist:
                    classes.add('persisted')
                    store[(pid, None)] = (prog, 0)
                if loader is not None and not rejected and loaders_h.TagLoader.loads <= loads_before:
                    v('loader-not-used', f'{where}: the configured loader did not resolve the class')
            elif kind == 'continue':
                pid, tag, nowait = op[1], op[2], op[3]
                classes.add('continue')
                client = case.get('client') if comm is not None else None
                if client == 'thread':
                    # the task is sent by the library's own client for synchronous code
                    classes.add('client:thread-controller')
                    with loop.as_running():
                        fut = process_comms.RemoteProcessThreadController(inner_comm).continue_process(pid, tag=tag, nowait=nowait)
                elif client == 'async':
                    # ... or by its client for coroutines
                    classes.add('client:controller')
                    with loop.as_running():
                        fut = loop.create_task(process_comms.RemoteProcessController(comm).continue_process(pid, tag=tag, nowait=nowait))
                        fut._pv_owned = True
                else:
                    fut = send(process_comms.create_continue_body(pid, tag=tag, nowait=nowait))
                key = (pid, tag)
                if persister is None:
                    run_until(lambda: _fut_outcome(fut)[0] != 'pending')
                    out = _fut_outcome(fut)
                    classes.add('rejected')
                    if out[0] != 'raise' or not isinstance(out[1], kiwipy.TaskRejected):
                        v('not-rejected', f'{where}: continue without a persister gave {out!r}')
                    if adopt_new('?', 0, True, 'continue', before):
                        v('rejected-task-had-effect', f'{where}: a process was loaded')
                elif key not in store:
                    run_until(lambda: _fut_outcome(fut)[0] != 'pending')
                    out = _fut_outcome(fut)
                    classes.add('continue-absent')
                    if out[0] != 'raise':
                        v('continue-absent', f'{where}: no such checkpoint, but the reply is {out!r}')
                    if adopt_new('?', 0, True, 'continue', before):
                        v('rejected-task-had-effect', f'{where}: a process was loaded')
                else:
                    prog, base = store[key]
                    if nowait:
                        run_until(lambda: _fut_outcome(fut)[0] != 'pending')
                        out = _fut_outcome(fut)
                        new = adopt_new(prog, base, True, 'continue', before)
                        if out != ('ok', pid):
                            v('reply', f'{where}: reply {out!r}, expected the pid {pid}')
                        if len(new) != 1:
                            v('instances', f'{where}: {len(new)} processes were loaded')
                    else:
                        loop.drain()
                        new = adopt_new(prog, base, True, 'continue', before)
                        if len(new) != 1:
                            v('instances', f'{where}: {len(new)} processes were loaded')
                        replies.append((where, fut, {'prog': prog, 'proc': new[0] if new else None}))
                    if loader is not None and loaders_h.TagLoader.loads <= loads_before:
                        v('loader-not-used', f'{where}: the configured loader did not resolve the class')
            elif kind == 'checkpoint':
                pid, tag = op[1], op[2]
                if persister is None:
                    continue
                loop.drain()
                live = [i for i in instances if i['proc'].pid == pid and i['started'] and not i['proc'].has_terminated()]
                if not live:
                    continue
                inst = live[-1]
                done = inst['base'] + sum(1 for e in w.trace.get(pid, []) if e['k'] == 'enter' and e['oid'] == id(inst['proc']))
                with loop.as_running():
                    persister.save_checkpoint(inst['proc'], tag)
                store[(pid, tag)] = (inst['prog'], done)
                classes.add('harness-checkpoint')
            elif kind == 'resume':
                loop.drain()
                with loop.as_running():
                    for inst in instances:
                        proc = inst['proc']
                        if proc.pid == op[1] and inst['started'] and proc.state.value == 'waiting':
                            proc.resume('rv')
                loop.drain()
            elif kind == 'execute':
                # the client-side shorthand RemoteProcessController.execute_process = create (persisting) then continue,
                # with the caller's nowait / no_reply flags
                prog, pid, nowait, no_reply = op[1], op[2], op[3], op[4]
                thread_client = case.get('client') == 'thread' and comm is not None
                if comm is None or (persister is None and not thread_client):
                    hist.append(op)
                    continue
                classes.add('execute')
                ident_loader = custom if loader is not None else None
                with loop.as_running():
                    if thread_client:
                        # the same shorthand of the client for synchronous code (a kiwipy future comes back)
                        classes.add('client:thread-controller')
                        task = process_comms.RemoteProcessThreadController(inner_comm).execute_process(classes_by_prog[prog], init_kwargs={'pid': pid}, loader=ident_loader, nowait=nowait, no_reply=no_reply)
                    else:
                        ctl = process_comms.RemoteProcessController(comm)
                        task = loop.create_task(ctl.execute_process(classes_by_prog[prog], init_kwargs={'pid': pid}, loader=ident_loader, nowait=nowait, no_reply=no_reply))
                        task._pv_owned = True
                loop.drain()
                if persister is None:
                    # nothing can be persisted, so the create half is refused: the caller is told, it is not left waiting
                    classes.add('rejected')
                    out = _fut_outcome(task)
                    if out[0] != 'raise':
                        v('execute-failure-not-reported', f'{where}: the create task cannot succeed without a persister, yet execute_process gave {out!r}')
                    if adopt_new('?', 0, True, 'execute', before):
                        v('rejected-task-had-effect', f'{where}: a process appeared')
                    hist.append(op)
                    continue
                new = known_instances()[before:]
                created = [p for p in new if p.state.value == 'created' and not any(e['k'] == 'enter' and e['oid'] == id(p) for e in w.trace.get(p.pid, []))]
                if prog == 'U':
                    # the class is named by the loader handed to execute_process(): the create part works (the continue
                    # part depends on whether the persister can name the class, which is not judged here)
                    if len(created) != 1:
                        outcome = _fut_outcome(task)
                        v('execute-loader-dropped', f'{where}: no process was created for a class that only the given loader can name ({outcome!r})')
                elif len(new) != 2 or len(created) != 1:
                    v('execute-instances', f'{where}: expected one created and one continued instance, got {[(p.pid, p.state.value) for p in new]}')
                else:
                    runner = [p for p in new if p is not created[0]][0]
                    instances.append({'proc': created[0], 'prog': prog, 'base': 0, 'started': False, 'origin': 'create'})
                    instances.append({'proc': runner, 'prog': prog, 'base': 0, 'started': True, 'origin': 'continue'})
                    store[(pid, None)] = (prog, 0)
                    out = _fut_outcome(task)
                    want = ('ok', None) if no_reply else (('ok', pid) if nowait else ('ok', OUTPUTS[prog]))
                    if out != want:
                        v('execute-reply', f'{where}: execute_process returned {out!r}, expected {want!r}')
            elif kind == 'bogus':
                classes.add('rejected')
                fut = send({'task': 'no-such-task', 'args': {}})
                run_until(lambda: _fut_outcome(fut)[0] != 'pending')
                out = _fut_outcome(fut)
                if out[0] != 'raise' or not isinstance(out[1], kiwipy.TaskRejected):
                    v('not-rejected', f'{where}: unknown task type gave {out!r}')
                if adopt_new('?', 0, True, 'bogus', before):
                    v('rejected-task-had-effect', f'{where}: a process appeared')
            hist.append(op)
            if viol:
                break

        # completion: resume everything that waits until all started instances terminate
        for _ in range(8):
            loop.drain()
            waiting = [i for i in instances if i['started'] and i['proc'].state.value == 'waiting']
            if not waiting:
                break
            with loop.as_running():
                for inst in waiting:
                    inst['proc'].resume('rv')
        loop.drain()
        if not viol:
            for inst in instances:
                proc = inst['proc']
                got = [e['step'] for e in w.trace.get(proc.pid, []) if e['k'] == 'enter' and e['oid'] == id(proc)]
                if not inst['started']:
                    if got:
                        v('created-process-ran', f"process created by a create task (pid {proc.pid}) executed {got}")
                    if proc.state.value != 'created':
                        v('created-process-ran', f'created process is in state {proc.state.value}')
                    continue
                want = STEPS[inst['prog']][inst['base'] :]
                if got != want:
                    v('executed-steps', f"{inst['origin']} of {inst['prog']} (pid {proc.pid}) from position {inst['base']}: executed {got}, expected {want}")
                exp_state = 'excepted' if inst['prog'] in ('X', 'H') else 'finished'
                if proc.state.value != exp_state:
                    v('final-state', f"{inst['origin']} of {inst['prog']} ended {proc.state.value}")
            for where, fut, exp in replies:
                out = _fut_outcome(fut)
                if exp['prog'] == 'X':
                    if out[0] != 'raise' or not isinstance(out[1], ProgError):
                        v('reply', f"{where}: expected the process's error, reply is {out!r}")
                elif exp['prog'] == 'H':
                    proc = exp['proc']
                    if proc is not None and proc.state.value == 'excepted':
                        if out[0] != 'raise' or not isinstance(out[1], InjectedFault):
                            v('reply', f"{where}: the process ended EXCEPTED (on_finished raised) but the reply is {out!r}")
                    elif out != ('ok', {'h': 1}):
                        v('reply', f"{where}: reply {out!r}")
                elif out != ('ok', OUTPUTS[exp['prog']]):
                    v('reply', f"{where}: reply {out!r}, expected the outputs {OUTPUTS[exp['prog']]}")
            if persister is not None:
                keys = {(c.pid, c.tag) for c in persister.get_checkpoints()}
                if keys != set(store):
                    v('persister-content', f'persister holds {sorted(map(str, keys))}, expected {sorted(map(str, store))}')
            for ctx in loop.escapes():
                if isinstance(ctx.get('exception'), (ProgError, InjectedFault, kiwipy.TaskRejected)):
                    continue  # a failing process / rejected task fails the task that runs it: that is the reply, not an escape
                if ctx['exc_type'] in ('KeyError', 'FileNotFoundError'):
                    continue
                if ctx['exc_type'] == 'ValueError' and 'unpersistable-class' in classes:
                    continue  # the refusal of the unpersistable class is the reply of that task
                v('loop-exception', f"{ctx['message'][:70]} {ctx['exc_type']}: {ctx['exc_str']}")
                break
    finally:
        for task in loop.all_tasks:
            task._log_destroy_pending = False
            if not task.done():
                task.cancel()
        loop.drain(300)
        for task in loop.all_tasks:
            if task.done() and not task.cancelled():
                task.exception()
        loaders.set_object_loader(prev_loader)
        loop.shutdown()
        asyncio.set_event_loop(None)
        world.reset(None)
        shutil.rmtree(tmpdir, ignore_errors=True)
    nontrivial = bool(classes & {'continue', 'rejected', 'persisted'})
    classes |= {'persister:' + case['persister'], 'loader:' + case['loader'], 'via:' + case['via'], 'load_context:' + case.get('load_context', 'none')}
    return {'violations': viol, 'nontrivial': nontrivial, 'classes': sorted(classes), 'history': {'config': [case['persister'], case['loader'], case['via']], 'ops': hist}}


SIGNATURES = {}
