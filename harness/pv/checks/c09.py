"""C09 -- a WorkChain executes its outline as the structured program it denotes."""

import copy

from hypothesis import strategies as st

from .. import wc
from ..exec import Exec
from ..models import outline as model

ID = 'C09'
LEVEL = 'exploration'
RULE = (
    'cases = outline ASTs (steps, if_/elif_/else_, while_, return_, return_(code); nesting depth <=3 quick / 4 thorough, '
    'blocks of 1-3 instructions) with a truth-value sequence per predicate and a return-value sequence per step (None, '
    'ints including 0, strings, empty ToContext); every depth-<=2 outline over a 2-value alphabet is also enumerated; the '
    'oracle is an independent recursive interpreter; non-trivial = a loop or a nested conditional executes and >=3 '
    'step/predicate calls are made; distinct = SHA-1 of the case JSON'
)
ASSUMPTIONS = [
    'outline bodies are non-empty (an empty body cannot be constructed into a stepper; implicit precondition of every caller)',
    'when the chain falls off the end of the outline right after a step that returned a ToContext, both None and that mapping are accepted as result (the statement is ambiguous there)',
]
BUDGET = {
    'quick': {'enum': ['small'], 'hyp': 4000, 'shards': 8},
    'thorough': {'enum': ['small', 'medium'], 'hyp': 200000, 'shards': 16},
}
STEP_NAMES = ['a', 'b', 'c', 'd']
PRED_NAMES = ['p', 'q', 'r']
RET_VALUES = [None, None, None, None, None, None, None, None, 0, 1, 'x', {'__tc__': {}}, {'__tc__': {}}, {'__mapping__': {}}, {'__mapping__': {'k': 1}}]


# ---------------------------------------------------------------------------------------------
def _small_instrs(depth):
    """All instructions of nesting depth <= depth over a tiny alphabet (for exhaustive enumeration)."""
    leaves = [['step', 'a'], ['step', 'b'], ['return'], ['return', 3]]
    if depth == 0:
        return leaves
    inner = _small_instrs(depth - 1)
    bodies = [[i] for i in inner] + [[['step', 'a'], i] for i in inner[:4]]
    out = list(leaves)
    for body in bodies:
        out.append(['while', 'p', body])
        out.append(['if', [['q', body]], None])
        out.append(['if', [['q', body]], [['step', 'b']]])
        out.append(['if', [['q', body], ['r', [['step', 'b']]]], [['return', 4]]])
    return out


def enumerate_cases(tier, scope):
    depth = 1 if scope == 'small' else 2
    instrs = _small_instrs(depth)
    behaviours = [
        {'rets': {}, 'preds': {'p': [True, False], 'q': [True], 'r': [True]}},
        {'rets': {'a': [None, 5]}, 'preds': {'p': [True, True, False], 'q': [False], 'r': [True]}},
        {'rets': {'b': [0]}, 'preds': {'p': [True, False], 'q': [False, True], 'r': [False]}},
        {'rets': {'a': [{'__tc__': {}}]}, 'preds': {'p': [False], 'q': [True, True], 'r': [True]}},
        {'rets': {'a': [7], 'b': [None, 8]}, 'tocontext': {'a': [{'ka': ['done', 1]}], 'b': [{'kb': ['done', 2]}, {'kb2': ['done', 3]}]}, 'preds': {'p': [True, False], 'q': [True], 'r': [True]}},
        {'rets': {}, 'tocontext': {'a': [{'ka': ['done', 1]}, {'ka': ['done', 2]}], 'b': [{'kb': ['done', 2]}]}, 'preds': {'p': [True, True, False], 'q': [True, False], 'r': [True]}},
        {'rets': {}, 'preds': {'p': [True, False], 'q': [False, True], 'r': [False]}, 'pred_as': {'p': 'list', 'q': 'str', 'r': 'tuple'}},
        {'rets': {}, 'preds': {'p': [True, True, False], 'q': [False], 'r': [True]}, 'pred_as': {'p': 'int', 'q': 'none', 'r': 'list'}},
        {'rets': {'a': [None, {'__mapping__': {}}], 'b': [{'__mapping__': {'k': 1}}]}, 'preds': {'p': [True, True, False], 'q': [True], 'r': [True]}},
        {'rets': {'b': [None, 2]}, 'preds': {'p': [True, True, False], 'q': [True, False], 'r': [True]}, 'module_steps': True},
    ]
    if scope == 'medium':
        instrs = instrs[:: max(1, len(instrs) // 1500)]
    for first in instrs:
        for tail in ([], [['step', 'b']], [['step', 'a'], ['return', 9]]):
            for beh in behaviours:
                yield {'outline': [first] + tail, 'behaviour': beh}
    # a spec class whose get_outline() brackets the declared outline with bookkeeping steps
    for first in instrs:
        if any(ins[0] == 'return' for ins in _flatten([first])):
            continue
        for tail in ([], [['step', 'b']]):
            for beh in behaviours[:1] + behaviours[6:8]:
                yield {'outline': [first] + tail, 'behaviour': dict(beh, bracket=True)}
    # the chain runs on a loop of its own and waits for processes it launches from its steps
    child = {'steps': [{'async': True, 'body': [['yield'], ['out', 'c', 1]], 'ret': ['value', 5]}]}
    own = [
        {'rets': {'a': [7]}, 'tocontext': {'a': [{'ka': ['child', child]}], 'b': [{'kb': ['done', 2]}]}, 'preds': {'p': [True, False], 'q': [True], 'r': [True]}},
        {'rets': {'a': [{'__tc__': {'kr': ['child', child]}}], 'b': [None, 8]}, 'preds': {'p': [True, True, False], 'q': [True, False], 'r': [True]}},
    ]
    for first in instrs[:: max(1, len(instrs) // 40)]:
        for tail in ([], [['step', 'a'], ['step', 'b']]):
            for beh in own + behaviours[:2]:
                yield {'outline': [first] + tail, 'behaviour': beh, 'own_loop': True}


@st.composite
def _instr(draw, depth):
    kinds = ['step'] * 8 + ['return', 'retcode']
    if depth > 0:
        kinds += ['if'] * 5 + ['while'] * 5
    kind = draw(st.sampled_from(kinds))
    if kind == 'step':
        return ['step', draw(st.sampled_from(STEP_NAMES))]
    if kind == 'return':
        return ['return']
    if kind == 'retcode':
        return ['return', draw(st.integers(0, 5))]
    if kind == 'while':
        return ['while', draw(st.sampled_from(PRED_NAMES)), draw(_body(depth - 1))]
    nbranch = draw(st.integers(1, 3))
    branches = [[draw(st.sampled_from(PRED_NAMES)), draw(_body(depth - 1))] for _ in range(nbranch)]
    else_body = draw(_body(depth - 1)) if draw(st.booleans()) else None
    return ['if', branches, else_body]


@st.composite
def _body(draw, depth):
    n = draw(st.integers(1, 3))
    return [draw(_instr(depth)) for _ in range(n)]


@st.composite
def _cases(draw, tier):
    depth = draw(st.integers(1, 3 if tier == 'quick' else 4))
    outline = draw(_body(depth))
    rets = {}
    for name in STEP_NAMES:
        rets[name] = draw(st.lists(st.sampled_from(RET_VALUES), max_size=5))
    preds = {}
    for name in PRED_NAMES:
        seq = draw(st.lists(st.booleans(), max_size=5))
        if draw(st.integers(0, 3)) > 0:
            seq = [True] + seq  # bias: loops and branches get entered
        preds[name] = seq
    behaviour = {'rets': rets, 'preds': preds}
    if draw(st.integers(0, 3)) == 0:
        behaviour['module_steps'] = True
    if draw(st.integers(0, 2)) == 0:
        behaviour['pred_as'] = {name: draw(st.sampled_from(['list', 'str', 'tuple', 'int', 'none'])) for name in draw(st.lists(st.sampled_from(PRED_NAMES), min_size=1, max_size=3, unique=True))}
    if draw(st.integers(0, 2)) == 0:
        # steps that also register (already completed) awaitables through to_context(): the denoted program is the same,
        # in particular a value returned by such a step still is the result
        behaviour['tocontext'] = {name: [{'k' + name: ['done', i]} for i in range(draw(st.integers(1, 3)))] for name in draw(st.lists(st.sampled_from(STEP_NAMES), min_size=1, max_size=3, unique=True))}
    case = {'outline': outline, 'behaviour': behaviour}
    if draw(st.integers(0, 3)) == 0:
        case['own_loop'] = True
        if draw(st.booleans()):
            child = {'steps': [{'async': True, 'body': [['yield']], 'ret': ['value', 5]}]}
            behaviour.setdefault('tocontext', {})[draw(st.sampled_from(STEP_NAMES))] = [{'kc': ['child', child]}]
    return case


def strategy(tier):
    return _cases(tier)


# ---------------------------------------------------------------------------------------------
def run_workchain(outline, behaviour, resumes=None, own_loop=False):
    """Run the generated workchain to completion; returns (calls, summary)."""
    import contextlib

    cls = wc.make_workchain(outline, behaviour)
    case = {'program': {'steps': []}, 'schedule': [], 'decoy_loop': own_loop}
    with Exec(case, attach_listener=False) as ex:
        # own_loop: the chain is given a loop of its own that is not the thread's default loop, and is constructed while
        # no loop runs; the processes it launches have to run on that loop too
        with contextlib.nullcontext() if own_loop else ex.loop.as_running():
            proc = cls(pid=1, loop=ex.loop)
        ex.attach(proc)
        ex.sample('start')
        ex.launch_task()
        ex.settle(play=True, resumes=None, open_gates=True)
        calls = []
        for e in ex.world.trace.get(1, []):
            if e['k'] == 'enter':
                calls.append(('step', e['step']))
            elif e['k'] == 'pred':
                calls.append(('pred', e['name'], e['value']))
        views = ex.views()
        escapes = ex.loop.escapes()
    return calls, views, escapes


def execute(case):
    viol = []

    def v(clause, detail):
        viol.append({'clause': clause, 'detail': detail})

    outline, behaviour = case['outline'], case['behaviour']
    exp_calls, exp_result, last_tc = model.interpret(outline, behaviour)
    if behaviour.get('bracket'):
        # the spec class wraps the declared outline with a prologue and an epilogue step (no return instructions here)
        exp_calls = [('step', 'pro')] + list(exp_calls) + [('step', 'epi')]
    calls, views, escapes = run_workchain(outline, behaviour, own_loop=bool(case.get('own_loop')))
    if case.get('own_loop') and views.get('decoy_scheduled'):
        v('left-its-loop', f"{views['decoy_scheduled']} callback(s) were scheduled on the thread's default loop instead of the loop the chain was given")
    if calls != exp_calls:
        n = next((i for i, (a, b) in enumerate(zip(calls, exp_calls)) if a != b), min(len(calls), len(exp_calls)))
        v('call-order', f'first difference at call {n}: executed {calls[n:n+3]} expected {exp_calls[n:n+3]} (lengths {len(calls)}/{len(exp_calls)})')
    if exp_result[0] == 'value':
        if views['state'] != 'finished':
            v('final-state', f"{views['state']} (exception {views['exception']}) expected finished")
        else:
            got = views['result']
            ok = got == ['ok', exp_result[1]]
            if not ok and isinstance(exp_result[1], dict) and '__mapping__' in exp_result[1] and got[0] == 'ok':
                from collections.abc import Mapping

                ok = isinstance(got[1], Mapping) and not isinstance(got[1], dict) and dict(got[1]) == exp_result[1]['__mapping__'] or got[1] == exp_result[1]['__mapping__']
            if not ok and last_tc and got[0] == 'ok' and isinstance(got[1], dict):
                ok = True  # fell off the outline right after a ToContext: ambiguous, accepted
            if not ok:
                v('result', f'result() {got} expected {exp_result[1]!r}')
    else:
        if views['state'] != 'excepted':
            v('final-state', f"{views['state']} expected excepted")
    for esc in escapes:
        v('loop-exception', str(esc)[:200])
        break

    looped = sum(1 for c in exp_calls if c[0] == 'pred' and c[2]) >= 1
    nontrivial = looped and len(exp_calls) >= 3 and _has_nesting(outline)
    classes = ['calls:' + ('0-2' if len(exp_calls) < 3 else '3-9' if len(exp_calls) < 10 else '10+')]
    if any(ins[0] == 'while' for ins in _flatten(outline)):
        classes.append('has-while')
    if any(ins[0] == 'if' for ins in _flatten(outline)):
        classes.append('has-if')
    if exp_result[1] is not None:
        classes.append('early-or-coded-return')
    return {
        'violations': viol,
        'nontrivial': nontrivial,
        'classes': classes,
        'history': {'executed': calls[:40], 'expected_result': exp_result, 'state': views['state']},
    }


def _flatten(body):
    for ins in body:
        yield ins
        if ins[0] == 'while':
            yield from _flatten(ins[2])
        elif ins[0] == 'if':
            for _p, sub in ins[1]:
                yield from _flatten(sub)
            if ins[2] is not None:
                yield from _flatten(ins[2])


def _has_nesting(outline):
    return any(ins[0] in ('while', 'if') for ins in _flatten(outline))


def shrink_candidates(case):
    outline = case['outline']
    for i in range(len(outline)):
        if len(outline) > 1:
            cand = copy.deepcopy(case)
            del cand['outline'][i]
            yield cand
    for i, ins in enumerate(outline):
        subs = []
        if ins[0] == 'while':
            subs.append(ins[2])
        elif ins[0] == 'if':
            subs.extend(b for _p, b in ins[1])
            if ins[2] is not None:
                subs.append(ins[2])
        for sub in subs:
            cand = copy.deepcopy(case)
            cand['outline'][i : i + 1] = copy.deepcopy(sub)
            yield cand
    for table in ('rets', 'preds'):
        for name, seq in case['behaviour'][table].items():
            if seq:
                cand = copy.deepcopy(case)
                cand['behaviour'][table][name] = seq[:-1]
                yield cand


SIGNATURES = {}
