"""C02 -- all reports of a terminated process's outcome agree and waiters are released."""

from hypothesis import strategies as st

from .. import gen
from ..exec import Exec
from ..programs import ProgError

ID = 'C02'
LEVEL = 'exploration'
RULE = (
    'cases = (program; schedule of <=K pause/play/kill/resume requests at tick boundaries, self-directed calls in steps, '
    'listener-issued calls), completed by play + resume of every wait; after every event-loop callback the future/terminated '
    'invariant is checked and at the end all outcome views are compared; non-trivial = the terminal state was reached on a '
    'path with >=1 request delivered while the process was live; distinct = SHA-1 of the case JSON'
)
ASSUMPTIONS = [
    'lifecycle hooks do not raise (they may issue control calls); one of the three registered cleanups may raise, which plumpy logs and must not let stop the others',
    'the task running step_until_terminated() is observed after the loop is quiescent (no wall clock)',
]
BUDGET = {
    'quick': {'enum': ['k1', 'k2', 'listener', 'hooks', 'tasks', 'extsoon', 'ownloop', 'notext'], 'hyp': 4000, 'shards': 8},
    'thorough': {'enum': ['k1', 'k2', 'k3', 'k4w', 'listener', 'hooks', 'tasks', 'extsoon', 'ownloop', 'notext'], 'hyp': 160000, 'shards': 16},
}
ALPHABET = [['pause', 'p'], ['play'], ['kill', 'kt'], ['resume', 1]]
TERMINAL = ('finished', 'excepted', 'killed')
TERMINAL_NOTES = {'finished': 'on_process_finished', 'excepted': 'on_process_excepted', 'killed': 'on_process_killed'}
CANCEL_TEXT = 'Killed by future being cancelled'


def enumerate_cases(tier, scope):
    cat = gen.CATALOGUE
    if scope in ('k1', 'k2', 'k3'):
        k = int(scope[1])
        max_gap = {1: 8, 2: 6, 3: 4}[k]
        # (missing_out: a required output is never emitted - the process finishes, unsuccessfully)
        for name in ('async2', 'wait1', 'chain', 'waitwait', 'failing', 'selfkill', 'sync3') + (('missing_out',) if k < 3 else ()):
            for sched in gen.schedules(ALPHABET, k, max_gap if name != 'missing_out' else min(max_gap, 4)):
                yield {'program': cat[name], 'schedule': sched, 'tag': f'{scope}:{name}', 'listener_twice': True, 'cleanup_follow_up': True}
    elif scope == 'ownloop':
        # the process has a loop of its own and is constructed / controlled from synchronous code while no loop runs
        for name in ('async2', 'wait1', 'chain', 'failing', 'selfkill', 'missing_out'):
            for k in (1, 2):
                for sched in gen.schedules(ALPHABET + [['fail', 'f']], k, 2):
                    yield {'program': cat[name], 'schedule': sched, 'decoy_loop': True, 'tag': f'ownloop:{name}'}
    elif scope == 'notext':
        # requests made without a text (kill() / pause() with their default message): the reports agree all the same -
        # the KilledError text is the (empty) kill text, not the spelling of None
        for name in ('async2', 'wait1', 'chain', 'sync3'):
            for k in (1, 2):
                for sched in gen.schedules([['pause'], ['play'], ['kill'], ['resume', 1]], k, 2):
                    if any(ev[0] == 'kill' for ev in sched):
                        yield {'program': cat[name], 'schedule': sched, 'tag': f'notext:{name}'}
    elif scope == 'extsoon':
        alpha = [['ext_soon', 'raise', 'x'], ['ext_soon', 'ok', 'y'], ['pause', 'p'], ['play'], ['kill', 'kt']]
        for name in ('async2', 'wait1', 'chain'):
            for k in (1, 2):
                for sched in gen.schedules(alpha, k, 2):
                    if not any(ev[0] == 'ext_soon' for ev in sched):
                        continue
                    yield {'program': cat[name], 'schedule': sched, 'tag': f'extsoon:{name}'}
    elif scope == 'tasks':
        # the caller gives up on step_until_terminated() (its task is cancelled) and may step the process again later
        alpha = [['pause', 'p'], ['play'], ['kill', 'kt'], ['resume', 1], ['cancel_task'], ['restep']]
        for name in ('async2', 'wait1', 'gated', 'chain'):
            for k in (2, 3):
                for sched in gen.schedules(alpha, k, 2):
                    if not any(ev[0] == 'cancel_task' for ev in sched):
                        continue
                    yield {'program': cat[name], 'schedule': sched, 'tag': f'tasks:{name}'}
    elif scope == 'k4w':
        for name in ('wait1', 'waitwait', 'async2'):
            for sched in gen.schedules(ALPHABET, 4, 1):
                yield {'program': cat[name], 'schedule': [['tick', 1]] + sched, 'tag': f'k4w:{name}'}
    elif scope == 'hooks':
        for name in ('wait1', 'chain', 'async2', 'selfkill'):
            for hook in gen.HOOK_SITES:
                for occ in (1, 2):
                    for pos in ('pre', 'post'):
                        for do in (['kill', 'hk'], ['pause', 'hp']):
                            for raising in (None, 0, 1):
                                yield {'program': cat[name], 'schedule': [['tick', 2], ['pause', 'p']], 'hooks': [{'hook': hook, 'occ': occ, 'pos': pos, 'do': do}], 'cleanup_raises': raising, 'listener_twice': occ == 2, 'cleanup_follow_up': pos == 'post'}
        # an output emitted from the hooks around the end of the last step (a summary written at the very end): result,
        # outcome future, listeners and the process itself keep telling the same story
        for name in ('wait1', 'chain', 'async2', 'sync3', 'waitwait'):
            for hook, pos in (('on_finish', 'pre'), ('on_finish', 'post'), ('on_finished', 'pre'), ('on_finished', 'post'), ('on_exit_running', 'post'), ('on_exiting', 'post')):
                for occ in (1, 2, 3):
                    for sched in ([], [['tick', 1], ['pause', 'p'], ['tick', 2], ['play']]):
                        yield {'program': cat[name], 'schedule': sched, 'hooks': [{'hook': hook, 'occ': occ, 'pos': pos, 'do': ['out', ['late', 7]]}]}
    elif scope == 'listener':
        # a listener that close()s the process as soon as it hears that it terminated (before on_terminated does)
        for name in ('wait1', 'chain', 'waitwait', 'async2', 'failing', 'selfkill'):
            for on in ('on_process_finished', 'on_process_killed', 'on_process_excepted'):
                for sched in list(gen.schedules([['pause', 'p'], ['play'], ['kill', 'kt'], ['fail', 'f']], 1, 3)) + list(gen.schedules([['pause', 'p'], ['kill', 'kt'], ['fail', 'f']], 2, 2)):
                    yield {'program': cat[name], 'schedule': sched, 'listener': [{'on': on, 'occ': 1, 'do': ['close', None]}]}
        # a listener that takes itself off the process, or puts another listener on it, from inside a notification
        for name in ('wait1', 'chain', 'async2', 'failing', 'selfkill'):
            for on in ('on_process_finished', 'on_process_killed', 'on_process_excepted', 'on_process_running', 'on_process_waiting'):
                for do in (['unsubscribe'], ['subscribe']):
                    for sched in list(gen.schedules([['pause', 'p'], ['kill', 'kt'], ['fail', 'f']], 1, 3)) + [[]]:
                        yield {'program': cat[name], 'schedule': sched, 'listener': [{'on': on, 'occ': 1, 'do': do}]}
        notifs = ['on_process_running', 'on_process_waiting', 'on_process_paused', 'on_process_played', 'on_output_emitted']
        for name in ('wait1', 'chain', 'waitwait', 'async2'):
            for on in notifs:
                for occ in (1, 2):
                    for do in (['kill', 'lk'], ['pause', 'lp'], ['play', None]):
                        for sched in gen.schedules(ALPHABET, 1, 4):
                            yield {'program': cat[name], 'schedule': sched, 'listener': [{'on': on, 'occ': occ, 'do': do}]}
    else:
        raise ValueError(scope)


@st.composite
def _cases(draw, tier):
    prog = draw(gen.programs(max_steps=4 if tier == 'quick' else 6, self_calls=('pause', 'play', 'kill'), soon=True))
    sched = draw(gen.control_schedules(['pause', 'play', 'kill', 'kill', 'resume', 'open', 'cancel_task', 'restep', 'ext_soon'], max_events=4, max_gap=4))
    plans = draw(gen.listener_plans(['kill', 'pause', 'play'])) if draw(st.booleans()) else []
    case = {'program': prog, 'schedule': sched, 'listener': plans}
    if draw(st.integers(0, 2)) == 0:
        case['hooks'] = draw(gen.hook_plans(['kill', 'pause', 'play']))
    if draw(st.integers(0, 2)) == 0:
        case['cleanup_raises'] = draw(st.integers(0, 2))
    case['listener_twice'] = draw(st.booleans())
    case['cleanup_follow_up'] = draw(st.booleans())
    return case


def strategy(tier):
    return _cases(tier)


def execute(case):
    viol = []
    classes = []

    def v(clause, detail):
        viol.append({'clause': clause, 'detail': detail})

    with Exec(case) as ex:
        ex.start()
        ex.run_schedule()
        if any(ev[0] == 'cancel_task' for ev in case.get('schedule', ())):
            ex.event(['restep'])  # somebody steps the process again in the end
        # no play after termination: it would release a stepping task that termination itself must release
        ex.settle(play=True, resumes=[11, 12, 13, 14, 15, 16], open_gates=True, final_play=False)
        w = ex.world
        pid = ex.proc.pid
        if any(r['who'].startswith('hook:') and r['raised'] and 'already transitioning' in r['raised'] for r in w.futs):
            # a hook override that requests a transition from inside a transition carried out directly (not by the
            # stepping task): plumpy refuses that by assertion, like fail() from a hook; the hook raises, which is
            # C03's subject and outside the quantifier of C02 (hooks do not raise)
            return {'violations': [], 'nontrivial': False, 'classes': ['hook-reentered-direct-transition'], 'history': ex.history()}
        # (a) the future is never resolved while the process is live
        for i, smp in enumerate(ex.samples):
            if smp[6] and not smp[5]:
                v('future-done-while-live', f'sample {i} ({smp[0]}): future done in state {smp[1]}')
                break
        views = ex.views()
        if views.get('decoy_scheduled') or views.get('future_loop_is_own') is False:
            v('left-its-loop', f"{views.get('decoy_scheduled')} callback(s) were scheduled on the thread's default loop; outcome future on the process's loop: {views.get('future_loop_is_own')}")
        final = views['state']
        notes = [n[0] for n in w.notifications.get(pid, [])]
        term_notes = [n for n in notes if n in TERMINAL_NOTES.values()]
        if views['terminated']:
            if not views['future_done']:
                v('future-pending-after-termination', f'state {final}')
            if final == 'finished':
                last = w.extra.get('last_ret', {}).get(pid)
                exp_result, exp_ok = _expected(last)
                need = ((((case.get('program') or {}).get('spec') or {}).get('outputs') or {}).get('ports') or {})
                if any(port.get('required') and name not in views['outputs'] for name, port in need.items()):
                    exp_ok = False  # the spec asks for an output that was never emitted
                res = views['result']
                if res[0] != 'ok' or res[1] != exp_result:
                    v('finished-result', f'result()={res} expected {exp_result!r}')
                fr = views.get('future_result')
                if fr is None or fr[0] != 'ok' or fr[1] != views['outputs']:
                    v('finished-future', f'future result {fr} != outputs {views["outputs"]}')
                # the listeners are told the outputs (what the outcome future resolved to), not the value the last step returned
                from ..programs import _summ

                for note in w.notifications.get(pid, []):
                    if note[0] == 'on_process_finished' and note[1] and note[1][0] != _summ(views['outputs']):
                        v('finished-notification-payload', f"on_process_finished was handed {note[1][0]!r}, the outputs are {views['outputs']!r}")
                        break
                if views['successful'] != ['ok', exp_ok] or views['is_successful'] != ['ok', exp_ok]:
                    v('finished-successful', f"successful()={views['successful']} is_successful={views['is_successful']} expected {exp_ok}")
                if views['killed'] != ['ok', False]:
                    v('finished-killed-flag', str(views['killed']))
                if views['exception'] != ['ok', None]:
                    v('finished-exception', str(views['exception']))
                if views['killed_msg'][0] != 'raise':
                    v('finished-killed-msg', 'killed_msg() did not raise')
            elif final == 'excepted':
                exc = views['exception'][1] if views['exception'][0] == 'ok' else None
                fexc = views.get('future_exception')
                res = views['result']
                if exc is None:
                    v('excepted-no-exception', str(views['exception']))
                else:
                    if fexc is None or fexc[0] != 'ok' or fexc[1] is not exc:
                        v('excepted-future', f'future exception {fexc} is not exception() {exc!r}')
                    if res[0] != 'raise' or res[2] is not exc:
                        v('excepted-result', f'result() gave {res[:2]}, not the exception {exc!r}')
                    if isinstance(exc, ProgError):
                        raised = list(w.extra.get('raised', [])) + [x for lst in w.extra.get('cb_excs', {}).values() for x in lst]
                        raised += [r['_exc'] for r in w.futs if r['what'] == 'fail' and r.get('_exc') is not None]
                        if not any(exc is r for r in raised):
                            v('excepted-not-original', f'{exc!r} is not the object the program raised')
                if views['killed'] != ['ok', False]:
                    v('excepted-killed-flag', str(views['killed']))
            elif final == 'killed':
                fexc = views.get('future_exception')
                msg = views['killed_msg']
                text = msg[1].get('message') if msg[0] == 'ok' and isinstance(msg[1], dict) else None
                if fexc is None or fexc[0] != 'ok' or type(fexc[1]).__name__ != 'KilledError':
                    v('killed-future', f'future gives {fexc}')
                elif str(fexc[1]) != (text or ''):
                    v('killed-future-text', f'KilledError text {str(fexc[1])!r} != killed_msg text {text!r}')
                res = views['result']
                if res[0] != 'raise' or res[1] != 'KilledError':
                    v('killed-result', f'result() gave {res[:2]}')
                if views['killed'] != ['ok', True]:
                    v('killed-flag', str(views['killed']))
                if msg[0] != 'ok':
                    v('killed-msg', f'killed_msg() raised {msg[1]}')
                texts = {(r['arg'] or '') for r in w.futs if r['what'] == 'kill'}
                for step in case['program']['steps']:
                    if step['ret'][0] == 'kill':
                        texts.add('' if step['ret'][1] == '__nomsg__' else (step['ret'][1] or ''))
                if msg[0] == 'ok' and not isinstance(text or '', str):
                    v('killed-text', f'killed_msg text is not a text but {text!r}')
                elif msg[0] == 'ok' and (text or '') not in texts:
                    v('killed-text', f'killed_msg text {text!r} not among issued {sorted(texts)}')
            # listeners: exactly one terminal notification, of the matching kind
            gone = [u for u in w.extra.get('unsubscribed', []) if u[0] not in TERMINAL_NOTES.values()]
            if gone and not term_notes:
                classes.append('listener-left-before-the-end')  # it took itself off the process earlier: nothing to hear
            elif term_notes != [TERMINAL_NOTES[final]]:
                v('terminal-notification', f'state {final}, terminal notifications {term_notes}')
            # cleanups exactly once, closed
            calls = [c.calls for c in ex.cleanups]
            if calls != [1, 1, 1]:
                v('cleanups', f'cleanup call counts {calls}')
            if ex.follow_up is not None and ex.cleanups[0].calls:
                if ex.cleanups[0].follow_up_error is not None:
                    v('cleanup-registration-refused', f'add_cleanup() from a running cleanup raised {ex.cleanups[0].follow_up_error!r}')
                elif ex.follow_up.calls != 1:
                    v('cleanups', f'a cleanup registered by a running cleanup (the process was not closed yet) ran {ex.follow_up.calls} times')
            if views['closed'] is not True:
                v('not-closed', f"add_cleanup after termination: closed={views['closed']}")
            # step_until_terminated() returned
            if views.get('task_harness_cancelled'):
                classes.append('stepping-task-cancelled-by-caller')
            elif not views.get('task_done'):
                v('stepping-task-blocked', f'state {final}, paused={views["paused"]}: the task running step_until_terminated() is not done')
            elif views.get('task_cancelled') or views.get('task_exception') is not None:
                v('stepping-task-raised', f"task exception {views.get('task_exception')!r} cancelled={views.get('task_cancelled')}")
        else:
            classes.append('not-terminated')
            if views.get('task_done') and views.get('task_cancelled') and not views.get('task_harness_cancelled'):
                v('stepping-task-raised', f"state {final}, paused={views['paused']}: the task running step_until_terminated() ended cancelled although nobody cancelled it")
            if term_notes:
                v('terminal-notification-while-live', str(term_notes))

        live_reqs = [r for r in w.futs if r['live_before'] and r['who'] != 'settle']
        nontrivial = bool(views['terminated'] and live_reqs)
        for r in live_reqs:
            if r['what'] == 'kill':
                classes.append('kill:' + (r['who'].split(':')[0]) + ':' + str(r.get('phase', 'in_step' if r['who'].startswith('self') else 'transition')))
        classes.append('final:' + final)
        history = ex.history()
    return {'violations': viol, 'nontrivial': nontrivial, 'classes': classes, 'history': history}


def _expected(last_ret):
    if last_ret is None:
        return None, True
    kind = last_ret[0]
    if kind == 'value':
        return last_ret[1], True
    if kind == 'unsuccessful':
        return last_ret[1], False
    if kind == 'stop':
        return last_ret[1], bool(last_ret[2])
    return None, True


from .c04 import shrink_candidates  # noqa: E402,F401

SIGNATURES = {}
