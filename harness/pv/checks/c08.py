"""C08 -- resuming from any checkpoint reproduces the uninterrupted execution."""

import copy
import itertools

from hypothesis import strategies as st

from .. import gen, restore
from . import c09

ID = 'C08'
LEVEL = 'exploration'
RULE = (
    'cases = (process program with context-driven loops/branches, waits and continuation arguments, or workchain outline '
    'with loops/branches/returns; wake-up values; a chain of <=3 crash points among the state entries; a serialisation '
    'medium): the reference run is uninterrupted; at each crash point the running instance is abandoned, the checkpoint '
    'is deserialised into a fresh event loop and continued with the remaining wake-ups; all single and double crash '
    'points are enumerated for the catalogue; non-trivial = a crash point lies inside a loop or branch, or before a '
    'continuation with arguments, or >=2 restores are chained; distinct = SHA-1 of the case JSON'
)
ASSUMPTIONS = [
    'steps depend only on persisted state (inputs, ctx, continuation arguments): generated programs guarantee it',
    'every restore uses a fresh deserialisation of the checkpoint in a fresh event loop',
    'workchains in this check register no live awaitables (a workchain WAITING on live futures is not savable)',
]
BUDGET = {
    'quick': {'enum': ['cat2'], 'hyp': 1500, 'shards': 8},
    'thorough': {'enum': ['cat2', 'cat3'], 'hyp': 60000, 'shards': 16},
}
S = gen.S
LOOP = {
    'steps': [
        S([['ctx', 'i', 0], ['ctx', 'jobs', [[1], [2]]], ['ctxalias', 'current', 'jobs'], ['out', 'start', 1]], ['continue', 1, [0], {'k': 'v'}]),
        S([['ctxinc', 'i'], ['ctxappend', 'current', 'x'], ['out', 'ns.last', 5]], ['branch', 'i', {'1': ['continue', 1, [1], {}], '2': ['wait', 1, 'again', {'d': 1}]}, ['continue', 2, ['done'], {'z': None}]]),
        S([['yield'], ['ctxinc', 'j']], ['branch', 'j', {'1': ['wait', 2, None, None]}, ['value', 'end']], True),
    ]
}
LOOP_FAIL = {
    'steps': [
        S([], ['continue', 1, [], {}]),
        S([['ctxinc', 'i']], ['branch', 'i', {'1': ['continue', 1, [], {}], '2': ['wait', 1, None, None]}, ['raise', 'late']]),
    ]
}
from ..models import ports as pm  # noqa: E402

TICKET = {
    'steps': [S([['out_input', 'first', 'n']], ['wait', 1, None, None]), S([['out_input', 'second', 'n'], ['ctxinc', 'i']], ['branch', 'i', {'1': ['wait', 1, None, None]}, ['continue', 2, [], {}]]), S([['out_input', 'third', 'n']], ['value', 'end'])],
    'spec': {'inputs': pm.ns({'n': pm.port(required=False, default=['counter', 100])})},
    'inputs': {},
}
CODEC_LOOP = dict(LOOP, codec=True)
# constructed without inputs (all ports optional): later steps still consult `inputs`
NOINPUT = {
    'steps': [S([['out_input_get', 'first', 'weight', 1]], ['wait', 1, None, None]), S([['out_input_get', 'second', 'bonus', 10], ['ctxinc', 'i']], ['branch', 'i', {'1': ['wait', 1, None, None]}, ['value', 13]])],
    'spec': {'inputs': pm.ns({'weight': pm.port(required=False), 'bonus': pm.port(required=False)})},
}
WC_CASES = [
    {'outline': [['step', 'a'], ['while', 'p', [['step', 'b'], ['if', [['q', [['step', 'c']]]], [['step', 'd']]]]], ['step', 'a']],
     'behaviour': {'rets': {}, 'preds': {'p': [True, True, True, False], 'q': [True, False, True]}, 'bodies': {'b': [['out', 'o.b', 1]], 'c': [['ctx', 'seen', [1, 2]]]}}},
    {'outline': [['while', 'p', [['if', [['q', [['return', 7]]]], None], ['step', 'a']]], ['step', 'b']],
     'behaviour': {'rets': {}, 'preds': {'p': [True, True, True], 'q': [False, False, True]}}},
    {'outline': [['if', [['p', [['step', 'a'], ['step', 'b']]], ['q', [['step', 'c']]]], [['step', 'd']]], ['step', 'a']],
     'behaviour': {'rets': {'a': [None, 3]}, 'preds': {'p': [False], 'q': [True]}}},
    # ... a chain class that keeps the outline position under a bundle key of its own
    {'outline': [['step', 'a'], ['while', 'p', [['step', 'b'], ['step', 'c']]], ['step', 'd']],
     'behaviour': {'rets': {}, 'preds': {'p': [True, True, False]}, 'bodies': {'b': [['out', 'o.b', 1]]}, 'stepper_key': 'pv_outline_position'}},
    # ... and a chain whose last step asks for an external reply with a plain Wait command (checkpointed while it waits)
    {'outline': [['step', 'a'], ['step', 'b']], 'behaviour': {'rets': {'b': [{'__wait__': 1}]}, 'preds': {}, 'bodies': {'a': [['ctx', 'seen', [1]]]}}},
]
MEDIA = ('pickle', 'copy', 'yaml')


def _n_entries(base):
    ref = restore.run_reference(_run_case(base), medium='pickle', resumes=base.get('resumes'), midstep=True)
    return len([c for c in ref.get('checkpoints', []) if c['state'] not in ('finished', 'excepted', 'killed')])


def _run_case(case):
    if 'outline' in case:
        return {'outline': case['outline'], 'behaviour': case['behaviour'], 'schedule': [], 'decoy_loop': bool(case.get('own_loop'))}
    return {'program': case['program'], 'schedule': [], 'decoy_loop': bool(case.get('own_loop'))}


def enumerate_cases(tier, scope):
    kmax = int(scope[3])
    bases = [{'program': LOOP}, {'program': LOOP_FAIL}, {'program': gen.CATALOGUE['waitwait']}, {'program': gen.CATALOGUE['chain']}, {'program': TICKET}, {'program': CODEC_LOOP}, {'program': NOINPUT}] + WC_CASES
    for base in bases:
        n = _n_entries(base)
        for k in range(1, kmax + 1):
            for crash in itertools.combinations(range(n), k):
                for medium in MEDIA if k == 1 else ('pickle',):
                    case = copy.deepcopy(base)
                    case.update({'crash': list(crash), 'medium': medium})
                    yield case
                    if k == 1 and medium == 'pickle':
                        # the same with a loop of its own, everything done from synchronous code while no loop runs
                        yield dict(copy.deepcopy(case), own_loop=True)


@st.composite
def _loop_program(draw):
    n = draw(st.integers(2, 4))
    steps = []
    for idx in range(n):
        is_async = draw(st.booleans())
        body = [['ctxinc', f'c{idx}']]
        if idx == 0:
            body += [['ctx', 'shared', [[0]]], ['ctxalias', 'alias', 'shared']]
        elif draw(st.booleans()):
            body.append(['ctxappend', draw(st.sampled_from(['alias', 'shared'])), idx])
        if draw(st.booleans()):
            body.append(['out', draw(st.sampled_from(['x', 'ns.y'])), draw(st.integers(0, 3))])
        if is_async and draw(st.booleans()):
            body.insert(0, ['yield'])
        last = idx == n - 1
        final = ['value', draw(st.integers(0, 3))] if last else draw(
            st.sampled_from([['continue', idx + 1, [idx], {}], ['continue', idx + 1, [], {'k': idx}], ['wait', idx + 1, 'm', None]])
        )
        if draw(st.integers(0, 2)) == 0 and idx > 0:
            back = draw(st.integers(0, idx))
            times = draw(st.integers(1, 2))
            table = {str(t): (['continue', back, [t], {}] if draw(st.booleans()) else ['wait', back, None, {'t': t}]) for t in range(1, times + 1)}
            ret = ['branch', f'c{idx}', table, final]
        else:
            ret = final
        steps.append({'async': is_async, 'body': body, 'ret': ret})
    return {'steps': steps}


@st.composite
def _cases(draw, tier):
    if draw(st.booleans()):
        base = draw(c09.strategy(tier))
        for ins in c09._flatten(base['outline']):
            pass
        # no awaitables: ToContext values stay empty
        case = {'outline': base['outline'], 'behaviour': {k: val for k, val in base['behaviour'].items() if k not in ('tocontext', 'module_steps')}}
    else:
        case = {'program': draw(_loop_program())}
        if draw(st.integers(0, 3)) == 0:
            case['program']['codec'] = True
    case['picks'] = draw(st.lists(st.integers(0, 40), min_size=1, max_size=3))
    case['medium'] = draw(st.sampled_from(['pickle', 'pickle', 'copy', 'yaml']))
    return case


def strategy(tier):
    return _cases(tier)


def execute(case):
    pm.COUNTER[0] = 0
    viol = []
    classes = []

    def v(clause, detail):
        viol.append({'clause': clause, 'detail': detail})

    medium = case.get('medium', 'pickle')
    run_case = _run_case(case)
    resumes = case.get('resumes')
    ref = restore.run_reference(run_case, medium=medium, resumes=resumes, midstep=True)
    if 'construct_error' in ref:
        return {'violations': [{'clause': 'construct', 'detail': repr(ref['construct_error'])}], 'nontrivial': False, 'classes': []}
    live = [c for c in ref['checkpoints'] if c['state'] not in ('finished', 'excepted', 'killed')]
    for c in live:
        if 'error' in c:
            v('save-failed', f"state entry #{c['index']} ({c['state']}): {c['error']!r}")
    if viol or not live:
        return {'violations': viol, 'nontrivial': False, 'classes': ['no-live-checkpoint'], 'history': {}}
    if ref['summary']['state'] not in ('finished', 'excepted', 'killed'):
        # the harness ran out of wake-up values: not a verdict
        return {'violations': [], 'nontrivial': False, 'classes': ['reference-not-terminated'], 'history': {}}
    if 'crash' in case:
        crash = [i for i in case['crash'] if i < len(live)]
    else:
        crash = sorted({p % len(live) for p in case['picks']})
    if not crash:
        return {'violations': [], 'nontrivial': False, 'classes': ['no-crash-point'], 'history': {}}

    ref_entries = restore.entries(ref['trace'])
    # the reference position (in entries) of every live checkpoint
    def pos(ckpt_trace_len, trace):
        return len(restore.entries(trace[:ckpt_trace_len]))

    executed = list(ref_entries[: pos(live[crash[0]]['n_trace'], ref['trace'])])
    current = live[crash[0]]
    current_global = crash[0]
    run = None
    for step_no, point in enumerate(crash):
        nxt = crash[step_no + 1] if step_no + 1 < len(crash) else None
        run = restore.run_from(run_case, current, medium, resumes=resumes, capture=nxt is not None, midstep=True)
        if 'load_error' in run:
            v('load-failed', f"restore #{step_no + 1} at state entry {point} ({current['state']}): {run['load_error']!r}")
            break
        if nxt is None:
            executed.extend(restore.entries(run['trace']))
        else:
            # the restored run's checkpoints correspond to the reference's state entries after `point`
            live_run = [c for c in run['checkpoints'] if c['state'] not in ('finished', 'excepted', 'killed')]
            idx = nxt - current_global - 1
            if idx >= len(live_run):
                v('restored-run-shorter', f'restored run from entry {point} has only {len(live_run)} further live state entries, expected more than {idx}')
                executed.extend(restore.entries(run['trace']))
                break
            if 'error' in live_run[idx]:
                v('save-failed', f"restored run, entry {nxt}: {live_run[idx]['error']!r}")
                break
            executed.extend(restore.entries(run['trace'][: live_run[idx]['n_trace']]))
            current = live_run[idx]
            current_global = nxt
    if not viol and run is not None:
        if executed != ref_entries:
            n = next((i for i, (a, b) in enumerate(zip(executed, ref_entries)) if a != b), min(len(executed), len(ref_entries)))
            v('trace-differs', f'crash points {crash} via {medium}: first difference at call {n}: got {executed[n:n+2]} expected {ref_entries[n:n+2]} (lengths {len(executed)}/{len(ref_entries)})')
        for key in ('state', 'result', 'successful', 'outputs', 'ctx', 'exception', 'killed_msg'):
            if run['summary'][key] != ref['summary'][key]:
                v('outcome-differs', f"crash points {crash} via {medium}: {key} = {run['summary'][key]!r} expected {ref['summary'][key]!r}")
                break

    inside = _inside_control_flow(case, ref, live, crash)
    if len(crash) >= 2:
        classes.append('chained')
    if any(live[c]['why'].startswith('midstep') for c in crash):
        classes.append('crash-inside-step')
    if inside:
        classes.append('crash-in-loop-or-branch')
    classes.append('wc' if 'outline' in case else 'proc')
    classes.append('medium:' + medium)
    classes.append('final:' + ref['summary']['state'])
    return {
        'violations': viol,
        'nontrivial': bool(len(crash) >= 2 or inside),
        'classes': classes,
        'history': {'crash': crash, 'medium': medium, 'reference': [list(e) for e in ref_entries[:30]], 'n_state_entries': len(live)},
    }


def _inside_control_flow(case, ref, live, crash):
    """A crash point is 'inside' when a step/predicate name repeats around it or the next state carries arguments."""
    ref_entries = restore.entries(ref['trace'])
    names = [e[1] for e in ref_entries]
    for point in crash:
        n = len(restore.entries(ref['trace'][: live[point]['n_trace']]))
        before, after = names[:n], names[n:]
        if set(before) & set(after):
            return True
        if after and n < len(ref_entries) and ref_entries[n][0] == 'step' and (ref_entries[n][2] or ref_entries[n][3]):
            return True
        if 'outline' in case and any(e[0] == 'pred' for e in ref_entries[:n]) and after:
            return True
    return False


SIGNATURES = {}
