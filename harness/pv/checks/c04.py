"""C04 -- a kill request is never lost and no live process is unkillable."""

import itertools

from hypothesis import strategies as st

from .. import gen
from ..exec import Exec
from ..programs import ProgError

ID = 'C04'
LEVEL = 'exploration'
RULE = (
    'cases = (program, schedule of <=K control requests {pause,play,kill,resume,future-cancel} at any tick boundary, '
    'self-directed calls inside steps, listener-issued calls); enumerated completely for the catalogue programs at the '
    'listed scopes, Hypothesis-generated beyond; non-trivial = the first kill on the live process shares a step '
    'instance with another request, or is issued inside a step, from a listener, while paused, or by cancelling the future; '
    'distinct = SHA-1 of the case JSON'
)
ASSUMPTIONS = [
    'external requests are delivered between two event-loop callbacks (harness-owned FIFO schedule); OS-thread races are out of scope',
    'lifecycle hooks do not raise (C03 covers those)',
]
BUDGET = {
    'quick': {'enum': ['k1', 'k2', 'self2', 'listener', 'wc1', 'wc2', 'reload', 'tasks', 'interruptible', 'ownloop'], 'hyp': 6000, 'shards': 8},
    'thorough': {'enum': ['k1', 'k2', 'k3', 'k4w', 'self3', 'listener', 'listener2', 'wc1', 'wc2', 'reload', 'tasks', 'interruptible', 'ownloop'], 'hyp': 200000, 'shards': 16},
}

ALPHABET = [['pause', 'p'], ['play'], ['kill', 'kt'], ['resume', 1], ['cancel']]
SELF_CALLS = [['call', 'pause', 'p'], ['call', 'play', None], ['call', 'kill', 'kt'], ['call', 'cancel', None]]
CANCEL_TEXT = 'Killed by future being cancelled'


# ---------------------------------------------------------------------------------------------
def enumerate_cases(tier, scope):
    cat = gen.CATALOGUE
    if scope in ('k1', 'k2', 'k3'):
        k = int(scope[1])
        max_gap = {1: 8, 2: 6, 3: 4}[k]
        for name in ('async2', 'wait1', 'chain', 'waitwait', 'failing', 'gated', 'missing_out'):
            for sched in gen.schedules(ALPHABET, k, max_gap):
                yield {'program': cat[name], 'schedule': sched, 'tag': f'{scope}:{name}'}
                if k == 1:
                    yield {'program': cat[name], 'schedule': sched, 'cleanup_raises': 1, 'tag': f'{scope}:{name}:cleanup-raises'}
    elif scope == 'ownloop':
        # the process has a loop of its own (given through loop=; the thread's default loop is another one that never
        # runs), is constructed and controlled from synchronous code while no loop is running
        for name in ('wait1', 'gated', 'async2', 'waitwait'):
            for k in (1, 2):
                for sched in gen.schedules(ALPHABET, k, 2):
                    if not any(ev[0] in ('kill', 'cancel') for ev in sched):
                        continue
                    yield {'program': cat[name], 'schedule': sched, 'decoy_loop': True, 'tag': f'ownloop:{name}'}
    elif scope == 'reload':
        # control requests (in particular cancelling the future) on an instance loaded from a checkpoint
        for name in ('wait1', 'waitwait', 'gated', 'missing_out'):
            for pre in ([], [['tick', 1]], [['tick', 3]], [['tick', 1], ['pause', 'p'], ['tick', 2]]):
                for sched in gen.schedules(ALPHABET, 1, 2):
                    yield {'program': cat[name], 'schedule': pre + [['reload']] + sched, 'tag': f'reload:{name}'}
                for sched in gen.schedules(ALPHABET, 2, 1):
                    yield {'program': cat[name], 'schedule': pre + [['reload']] + sched, 'tag': f'reload:{name}'}
    elif scope == 'interruptible':
        # an application-defined RUNNING state whose interrupt() reaches into the running step (installed through
        # get_state_classes()): the kill interruption then travels out of the step function itself
        progs = {
            'gated': dict(cat['gated'], interruptible_running=True),
            'gate2': {'steps': [gen.S([['gate', 'g1'], ['out', 'x', 1], ['gate', 'g2']], ['continue', 1, [], {}], True), gen.S([['gate', 'g1']], ['value', 2], True)], 'interruptible_running': True},
        }
        alpha = [['kill', 'kt'], ['cancel'], ['pause', 'p'], ['play']]
        for name, prog in progs.items():
            for k in (1, 2):
                for sched in gen.schedules(alpha, k, 2):
                    if not any(ev[0] in ('kill', 'cancel') for ev in sched) or any(ev[0] == 'pause' for ev in sched[:1]):
                        continue
                    yield {'program': prog, 'schedule': [['tick', 1]] + sched, 'tag': f'interruptible:{name}'}
    elif scope == 'tasks':
        # the caller cancels the task that steps the process (a timeout on step_until_terminated()) and may step it
        # again later: kills before, in between and after must still work
        alpha = [['pause', 'p'], ['play'], ['kill', 'kt'], ['cancel'], ['cancel_task'], ['restep']]
        for name in ('async2', 'wait1', 'gated', 'chain'):
            for k in (2, 3):
                for sched in gen.schedules(alpha, k, 2):
                    if not any(ev[0] == 'cancel_task' for ev in sched) or not any(ev[0] in ('kill', 'cancel') for ev in sched):
                        continue
                    yield {'program': cat[name], 'schedule': sched, 'tag': f'tasks:{name}'}
        # the caller cancels the future that kill() returned (gives up waiting): later kills must still work
        alpha = [['pause', 'p'], ['play'], ['kill', 'kt'], ['kill', 'k2'], ['withdraw'], ['resume', 1]]
        for name in ('async2', 'wait1', 'gated', 'waitwait'):
            for k in (2, 3):
                for sched in gen.schedules(alpha, k, 2):
                    if not any(ev[0] == 'withdraw' for ev in sched) or sched[[e[0] for e in sched].index('withdraw') - 1][0] not in ('kill', 'tick'):
                        continue
                    yield {'program': cat[name], 'schedule': [['tick', 1]] + sched, 'tag': f'withdraw:{name}'}
    elif scope == 'k4w':
        for name in ('wait1', 'waitwait', 'async2'):
            for sched in gen.schedules(ALPHABET, 4, 1):
                yield {'program': cat[name], 'schedule': [['tick', 1]] + sched, 'tag': f'k4w:{name}'}
    elif scope in ('wc1', 'wc2'):
        k = int(scope[2])
        for name in gen.WC_CATALOGUE:
            for sched in gen.schedules([a for a in ALPHABET if a[0] != 'resume'] + gen.WC_EVENTS, k, 3):
                yield dict(gen.base(name), schedule=sched, tag=f'{scope}:{name}')
            for on in ('on_process_running', 'on_process_waiting', 'on_process_paused'):
                for do in (['kill', 'lk'], ['pause', 'lp']):
                    for sched in gen.schedules([['pause', 'p'], ['play'], ['kill', 'kt']] + gen.WC_EVENTS, 1, 3):
                        yield dict(gen.base(name), schedule=sched, listener=[{'on': on, 'occ': 2, 'do': do}], tag=f'{scope}:{name}')
    elif scope in ('self2', 'self3'):
        kmax = int(scope[4])
        rets = [['continue', 1, [], {}], ['wait', 1, None, None], ['value', 1], ['raise', 'x']]
        for k in range(1, kmax + 1):
            for calls in itertools.product(SELF_CALLS, repeat=k):
                for ret in rets:
                    for is_async in (False, True):
                        body = [list(c) for c in calls]
                        if is_async:
                            body = body[:1] + [['yield']] + body[1:]
                        prog = {'steps': [gen.S(body, ret, is_async), gen.S([['yield']], ['value', 2], True)]}
                        for ext in ([], [['tick', 1], ['play']], [['tick', 2], ['kill', 'late']], [['tick', 1], ['resume', 5]]):
                            yield {'program': prog, 'schedule': ext, 'tag': scope}
    elif scope in ('listener', 'listener2'):
        notifs = ['on_process_running', 'on_process_waiting', 'on_process_paused', 'on_process_played']
        for name in ('wait1', 'chain', 'waitwait', 'async2'):
            for on in notifs:
                for occ in (1, 2):
                    for do in (['kill', 'lk'], ['pause', 'lp'], ['play', None]):
                        plan = [{'on': on, 'occ': occ, 'do': do}]
                        kk = 1 if scope == 'listener' else 2
                        for sched in gen.schedules(ALPHABET, kk, 4 if kk == 1 else 3):
                            yield {'program': cat[name], 'schedule': sched, 'listener': plan, 'tag': f'{scope}:{name}'}
    else:
        raise ValueError(scope)


@st.composite
def _cases(draw, tier):
    prog = draw(gen.programs(max_steps=4 if tier == 'quick' else 6, self_calls=('pause', 'play', 'kill', 'cancel'), soon=True))
    sched = draw(gen.control_schedules(['pause', 'play', 'kill', 'kill', 'resume', 'cancel', 'open', 'reload', 'cancel_task', 'restep', 'withdraw'], max_events=4, max_gap=4))
    plans = draw(gen.listener_plans(['kill', 'pause', 'play'])) if draw(st.booleans()) else []
    case = {'program': prog, 'schedule': sched, 'listener': plans}
    if draw(st.integers(0, 2)) == 0:
        case['cleanup_raises'] = draw(st.integers(0, 2))  # a user cleanup that raises when the process is closed
    return case


def strategy(tier):
    return _cases(tier)


# ---------------------------------------------------------------------------------------------
def _program_raised(ex, exc):
    """Was ``exc`` raised by the generated program itself (a failing step or call_soon callback)?"""
    return isinstance(exc, ProgError)


def execute(case):
    viol = []
    classes = []
    with Exec(case) as ex:
        ex.start()
        ex.run_schedule()
        ex.settle(play=False, resumes=None, open_gates=True)
        w = ex.world
        pid = ex.proc.pid

        kill_recs = [r for r in w.futs if r['what'] in ('kill', 'cancel')]
        live_kills = [r for r in kill_recs if r['live_before']]
        # a cancel() that returned False (future already done) is not a request
        live_kills = [r for r in live_kills if not (r['what'] == 'cancel' and r['ret'] == 'False')]
        # a kill whose returned future the caller cancelled is withdrawn: it makes no claim, but a later one must work
        if any(r.get('withdrawn') for r in live_kills):
            classes.append('kill-withdrawn')
        live_kills = [r for r in live_kills if not r.get('withdrawn')]

        def v(clause, detail):
            viol.append({'clause': clause, 'detail': detail})

        # (1) kill() on a live process never raises
        for r in live_kills:
            if r['raised']:
                v('kill-raised', f"{r['who']} {r['what']} in state {r['state_before']} raised {r['raised']}")

        probe = None
        if not live_kills and not ex.proc.has_terminated():
            # (6) probe: a further kill() from this reachable live configuration must terminate the process
            classes.append('probe:' + ex.phase())
            probe = ex.event(['kill', 'probe'], who='probe')
            ex.settle(play=False, resumes=None, open_gates=True)
            if probe['raised']:
                v('probe-kill-raised', f"in state {probe['state_before']} paused={probe['paused_before']}: {probe['raised']}")
            live_kills = [probe]

        views = ex.views()
        final = views['state']
        if views.get('decoy_scheduled') or views.get('future_loop_is_own') is False:
            v('left-its-loop', f"{views.get('decoy_scheduled')} callback(s) were scheduled on the thread's default loop / the outcome future lives on the process's loop: {views.get('future_loop_is_own')}")
        texts = set()
        for r in live_kills:
            texts.add(CANCEL_TEXT if r['what'] == 'cancel' else (r['arg'] or ''))
        for step in (case.get('program') or {'steps': []})['steps']:
            _collect_kill_texts(step['ret'], texts)

        if live_kills:
            first = live_kills[0]
            clause = 'probe-kill-lost' if probe is not None else 'kill-lost'
            # (2) never lost
            if not views['terminated']:
                v(clause, f"kill by {first['who']} in phase {first.get('phase')} state {first['state_before']}: process still {final}, paused={views['paused']}")
            elif final == 'finished':
                v(clause, f"kill by {first['who']} in state {first['state_before']}: process ended finished")
            elif final == 'excepted':
                exc = views['exception'][1]
                if not _program_raised(ex, exc):
                    v('kill-excepted', f"{first['what']} by {first['who']} in state {first['state_before']}: ended excepted with {type(exc).__name__}: {exc}")
            # ... or EXCEPTED if the step that was in flight fails: the failure overrules the pending kill
            failed_after = [e for e in w.trace.get(pid, [])[first.get('n_trace', 0) :] if e['k'] == 'exit' and e['outcome'] == 'raised']
            if failed_after and final == 'killed' and first['who'] != 'probe':
                v('step-failed-but-killed', f"step {failed_after[0]['step']} raised after the kill request by {first['who']} but the process ended killed")
            # as soon as the current step yields: no further step is entered after the request
            entered_after = [e for e in w.trace.get(pid, [])[first.get('n_trace', 0) :] if e['k'] == 'enter']
            if entered_after and views['terminated'] and final in ('killed',) and first['what'] == 'kill':  # a cancelled future is noticed one loop iteration later (asyncio schedules done-callbacks)
                v('step-after-kill', f"step {entered_after[0]['step']} was entered after the kill request by {first['who']} in state {first['state_before']}")
            # (3) return value / future
            for r in live_kills:
                if r['raised']:
                    continue
                if r['ret'] == 'True' and r['state_after'] != 'killed' and r['what'] == 'kill':
                    v('kill-true-not-killed', f"kill returned True but state was {r['state_after']}")
                if r['what'] == 'kill' and r['ret'] == 'False':
                    v('kill-false-on-live', f"kill on live process ({r['state_before']}) returned False")
                fut = r.get('_fut')
                if fut is not None and r['what'] == 'kill':
                    resolved_true = fut.done() and not fut.cancelled() and fut.exception() is None and fut.result() is True
                    if final == 'killed' and not resolved_true:
                        from ..exec import describe_future

                        v('kill-future-not-true', f"process ended killed but the kill future is {describe_future(fut)}")
                    if final != 'killed' and resolved_true:
                        v('kill-future-true-not-killed', f'kill future resolved True but process ended {final}')
            # (4) text recorded
            if final == 'killed':
                msg = views['killed_msg']
                text = None
                if msg[0] == 'ok' and isinstance(msg[1], dict):
                    text = msg[1].get('message')
                elif msg[0] == 'ok' and msg[1] is None:
                    text = None
                norm = text or ''
                if not isinstance(norm, str):
                    v('kill-text', f'killed_msg text is not a text but {text!r}')
                elif norm not in texts:
                    v('kill-text', f'killed_msg text {text!r} not among issued {sorted(texts)}')
                elif len(live_kills) == 1 and len(texts) == 1 and norm not in texts:
                    v('kill-text', f'killed_msg text {text!r} != {sorted(texts)}')
                fexc = views.get('future_exception')
                if fexc is None or fexc[0] != 'ok' or type(fexc[1]).__name__ != 'KilledError':
                    v('kill-future', f'process future does not raise KilledError: {fexc}')

        # classification
        nontrivial = False
        if live_kills and probe is None:
            first = live_kills[0]
            others = [r for r in w.futs if r is not first and r.get('epoch') == first.get('epoch') and r.get('epoch') is not None]
            if others:
                classes.append('kill-shares-step')
                nontrivial = True
            if first['who'].startswith('listener'):
                classes.append('kill-from-listener')
                nontrivial = True
            if first['who'].startswith('self'):
                classes.append('kill-in-step')
                nontrivial = True
            if first.get('phase') == 'paused':
                classes.append('kill-while-paused')
                nontrivial = True
            if first.get('phase') == 'in_step':
                classes.append('kill-ext-in-step')
                nontrivial = True
            if first['what'] == 'cancel':
                classes.append('kill-by-cancel')
                nontrivial = True
            classes.append('first-kill-phase:' + str(first.get('phase', 'n/a')))
        elif probe is not None:
            nontrivial = len([r for r in w.futs if r['live_before']]) >= 2
        classes.append('final:' + final)
        history = ex.history()
    return {'violations': viol, 'nontrivial': nontrivial, 'classes': classes, 'history': history}


def _collect_kill_texts(ret, texts):
    if ret[0] == 'kill':
        texts.add('' if ret[1] == '__nomsg__' else (ret[1] or ''))
    elif ret[0] == 'branch':
        for sub in list(ret[2].values()) + [ret[3]]:
            _collect_kill_texts(sub, texts)


# ---------------------------------------------------------------------------------------------
def shrink_candidates(case):
    import copy

    prog = case.get('program')
    if prog is None:
        return
    # simplify step bodies
    for si, step in enumerate(prog['steps']):
        for bi in range(len(step['body'])):
            cand = copy.deepcopy(case)
            del cand['program']['steps'][si]['body'][bi]
            yield cand
    # reduce tick counts
    for i, ev in enumerate(case.get('schedule', [])):
        if ev[0] == 'tick' and ev[1] > 1:
            cand = copy.deepcopy(case)
            cand['schedule'][i][1] = ev[1] - 1
            yield cand
    # drop trailing steps that are never referenced
    if len(prog['steps']) > 1:
        cand = copy.deepcopy(case)
        last = len(prog['steps']) - 1
        refs = [s['ret'][1] for s in prog['steps'] if s['ret'][0] in ('continue', 'wait')]
        if last not in refs:
            cand['program']['steps'].pop()
            yield cand


SIGNATURES = {}
