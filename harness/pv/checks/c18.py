"""C18 -- Process.current() is the process whose code is running."""

import asyncio

from hypothesis import strategies as st
from plumpy.processes import Process

from .. import gen, world
from ..programs import make_class
from ..steploop import StepLoop

ID = 'C18'
LEVEL = 'exploration'
RULE = (
    'cases = sets of N<=4 processes stepping concurrently on one loop with async steps (yield counts and gates drawn so '
    'that the FIFO interleavings vary), children launched from steps, processes executed re-entrantly from a sync step '
    '(nest_asyncio applied to the harness loop; those cases run in worker processes reserved for them because the patch '
    'is global), call_soon callbacks; Process.current() is sampled at every step entry, after every await, in every '
    'lifecycle hook fired by the process\'s own stepping, in every callback, after launch() and after a nested execute(), '
    'and by the harness between loop callbacks; non-trivial = >=2 processes interleave at await points, or a child / '
    'nested execution / callback is involved; distinct = SHA-1 of the case JSON'
)
ASSUMPTIONS = [
    'hooks in scope are those a run produces by itself: construction-time hooks (they run inside the caller\'s constructor call) and hooks triggered by external pause/play/kill (they run in the requester\'s code) are not sampled',
    'no control requests are issued (quantifier of C18)',
]
BUDGET = {
    'quick': {'enum': ['pairs', 'nested', 'ctl', 'hookctl', 'wcfail', 'orphan', 'exotic'], 'hyp': 2000, 'shards': 8},
    'thorough': {'enum': ['pairs', 'triples', 'nested', 'ctl', 'hookctl', 'wcfail', 'orphan', 'exotic'], 'hyp': 80000, 'shards': 16},
}
S = gen.S
OWN_HOOKS = ('on_run', 'on_running', 'on_wait', 'on_waiting', 'on_exit_running', 'on_exit_waiting', 'on_output_emitted', 'on_entered', 'on_entering', 'on_exiting', 'on_finish', 'on_finished')
NESTED_MODE = False
CONSTRUCTION = {('on_entering', 1), ('on_create', 1), ('on_entered', 1)}


def setup_worker(mode, shard, extra):
    """Worker processes with an odd shard number (or the 'nested' enumeration) run with nest_asyncio applied."""
    global NESTED_MODE
    NESTED_MODE = (mode == 'enum' and extra == 'nested') or (mode == 'hyp' and shard % 2 == 1)


CHILD = {'steps': [S([['yield'], ['soon', 'ok', 'cc'], ['soon_parent', 'pc1']], ['continue', 1, [], {}], True), S([['out', 'x', 1], ['soon_parent', 'pc2']], ['value', 1])]}
CHILD_WAITS = {'steps': [S([['gate', 'cg']], ['value', 2], True)]}
SHAPES = {
    'y1': {'steps': [S([['yield']], ['value', 1], True)]},
    'y3': {'steps': [S([['yield'], ['out', 'x', 1], ['yield'], ['soon', 'ok', 'c1'], ['yield']], ['continue', 1, [], {}], True), S([['yield']], ['value', 2], True)]},
    'sync': {'steps': [S([['soon', 'ok', 'c2'], ['soon', 'args', 'c3']], ['continue', 1, [1], {}]), S([['out', 'y', 2]], ['value', 3])]},
    'gate': {'steps': [S([['gate', 'g1'], ['yield']], ['wait', 1, None, None], True), S([], ['value', 4])]},
    # application-defined WAITING state that runs process code in execute(); callbacks that are async callable objects
    'cwait': {'steps': [S([['soon', 'async_obj', 'ao1'], ['yield']], ['wait', 1, None, None], True), S([['soon', 'async_obj', 'ao2']], ['value', 6])], 'sampling_waiting': True},
    # a step starts a raw asyncio helper task that outlives it
    'helper': {'steps': [S([['helper', 'h1', 7], ['yield'], ['yield']], ['continue', 1, [], {}], True), S([['helper', 'h2', 5], ['yield']], ['wait', 2, None, None], True), S([['yield']], ['value', 8], True)]},
    'launcher': {'steps': [S([['launch', CHILD, 50], ['yield'], ['launch', CHILD_WAITS, 51], ['yield']], ['value', 5], True)]},
    'failing': {'steps': [S([['yield'], ['raise', 'x']], ['value', 0], True)]},
}
CHILD_W = {'steps': [S([['status', 'cw']], ['wait', 1, None, None]), S([['yield']], ['value', 8], True)]}
AWAITER = {'steps': [S([['yield'], ['await_child', CHILD_W, 70], ['out', 'after', 1], ['yield']], ['continue', 1, [], {}], True), S([['soon', 'ok', 'ca']], ['value', 9])]}
# a coroutine callback scheduled by the last step (it runs when the process has finished and is closed) steps a helper process
LATE_HELPER = {'steps': [S([['yield']], ['continue', 1, [], {}], True), S([['soon', 'await_child', 'late', {'steps': [S([['yield'], ['out', 'x', 1]], ['value', 1], True)]}, 80], ['soon', 'ok', 'c9']], ['value', 10])]}
SELF_PAUSER = {'steps': [S([['call', 'pause', 'sp']], ['continue', 1, [], {}]), S([['yield'], ['call', 'pause', 'sp2'], ['yield']], ['wait', 2, None, None], True), S([], ['value', 3])]}
NESTER = {'steps': [S([['nested', CHILD, 60], ['out', 'after', 1], ['nested', SHAPES['sync'], 61]], ['continue', 1, [], {}]), S([['yield']], ['value', 6], True)]}
NESTER_ASYNC_PARENT = {'steps': [S([['yield']], ['continue', 1, [], {}], True), S([['nested', SHAPES['y3'], 62]], ['value', 7])]}


def enumerate_cases(tier, scope):
    import itertools

    names = list(SHAPES)
    if scope == 'ctl':
        for other in names + [None]:
            for gap in (0, 1, 2):
                for ctl in ([], [[3, '1/70', 'pause'], [6, '1/70', 'play']], [[2, '1/70', 'pause'], [3, '1/70', 'play'], [4, '1/70', 'pause'], [8, '1/70', 'play']], [[3, '1/70', 'pause'], [5, '1/70', 'kill']], [[4, '1/70', 'kill']]):
                    procs = [{'program': AWAITER, 'pid': 1}]
                    if other:
                        procs.append({'program': SHAPES[other], 'pid': 2})
                    yield {'procs': procs, 'start_gaps': [0, gap][: len(procs)], 'nested': False, 'ctl': ctl}
        for name in ('y3', 'gate', 'sync', 'cwait'):
            for other in (None, 'y3'):
                for tick in (0, 1, 2, 4):
                    for what in ('soon_async', 'soon_plain'):
                        procs = [{'program': SHAPES[name], 'pid': 1}]
                        if other:
                            procs.append({'program': SHAPES[other], 'pid': 2})
                        yield {'procs': procs, 'start_gaps': [0, 1][: len(procs)], 'nested': False, 'ctl': [[tick, '1', what], [tick + 1, 'any', what]]}
        for other in names + [None]:
            for gap in (0, 1, 2):
                procs = [{'program': LATE_HELPER, 'pid': 1}]
                if other:
                    procs.append({'program': SHAPES[other], 'pid': 2})
                yield {'procs': procs, 'start_gaps': [0, gap][: len(procs)], 'nested': False}
        for other in names + [None]:
            for gap in (0, 1, 2):
                procs = [{'program': SELF_PAUSER, 'pid': 1}]
                if other:
                    procs.append({'program': SHAPES[other], 'pid': 2})
                yield {'procs': procs, 'start_gaps': [0, gap][: len(procs)], 'nested': False}
        return
    if scope == 'exotic':
        # process classes that compare by value (two different processes are equal) or are falsy (container-like and
        # empty): the current process is a matter of identity
        for flag in ({'value_eq': 3}, {'falsy': True}):
            child_w = dict(CHILD_W, **flag)
            awaiter = {'steps': [S([['yield'], ['await_child', child_w, 70], ['out', 'after', 1], ['yield']], ['continue', 1, [], {}], True), S([['soon', 'ok', 'ca']], ['value', 9])]}
            awaiter.update(flag)
            launcher = {'steps': [S([['launch', dict(CHILD, **flag), 50], ['yield'], ['yield']], ['value', 5], True)]}
            launcher.update(flag)
            for main in (awaiter, launcher, dict(SHAPES['y3'], **flag), dict(SHAPES['sync'], **flag), dict(SHAPES['gate'], **flag)):
                for other in (None, 'y3', 'sync'):
                    for gap in (0, 1, 2):
                        procs = [{'program': main, 'pid': 1}]
                        if other:
                            procs.append({'program': dict(SHAPES[other], **flag), 'pid': 2})
                        ctl = [[3, '1/70', 'pause'], [6, '1/70', 'play']] if main is awaiter and gap == 2 else []
                        yield {'procs': procs, 'start_gaps': [0, gap][: len(procs)], 'nested': False, 'ctl': ctl}
        return
    if scope == 'orphan':
        # a fire-and-forget child is finalised by the garbage collector while another process is in the middle of a step
        launcher = {'steps': [S([['orphan', 90]], ['value', 1])]}
        worker = {'steps': [S([['yield'], ['gc'], ['yield'], ['out', 'x', 1], ['yield']], ['continue', 1, [], {}], True), S([['yield'], ['soon', 'ok', 'c1']], ['value', 2], True)]}
        for gap in (2, 3, 4, 5):
            for other in (None, 'y3', 'sync'):
                procs = [{'program': launcher, 'pid': 1}, {'program': worker, 'pid': 2}]
                gaps = [0, gap]
                if other:
                    procs.append({'program': SHAPES[other], 'pid': 3})
                    gaps.append(1)
                yield {'procs': procs, 'start_gaps': gaps, 'nested': False}
        return
    if scope == 'wcfail':
        # a workchain whose awaited child (or one of two) fails or is killed: the wait itself raises in the parent's step,
        # and the hooks of the failing parent (on_exit_waiting, on_except, on_excepted, on_terminated) run in that step
        failing_child = {'steps': [S([['yield']], ['raise', 'child failed'], True)]}
        killed_child = {'steps': [S([['yield']], ['kill', 'ck'], True)]}
        ok_child = {'steps': [S([['yield'], ['out', 'x', 1]], ['value', 1], True)]}
        for children in ([failing_child], [ok_child, failing_child], [killed_child], [failing_child, ok_child], [ok_child]):
            for how in ('ret', 'toctx'):
                specs = {f'k{i}': ['child', prog, 300 + i] for i, prog in enumerate(children)}
                beh = {'rets': {'a': [{'__tc__': specs}]} if how == 'ret' else {}, 'tocontext': {'a': [specs]} if how == 'toctx' else {}, 'preds': {}}
                for other in (None, 'y3', 'sync'):
                    procs = [{'outline': [['step', 'a'], ['step', 'b']], 'behaviour': beh, 'pid': 1}]
                    if other:
                        procs.append({'program': SHAPES[other], 'pid': 2})
                    for gap in (0, 1):
                        yield {'procs': procs, 'start_gaps': [0, gap][: len(procs)], 'nested': False}
        return
    if scope == 'hookctl':
        # a kill or pause requested by one of the process's own hooks during a transition: the hooks that carry the
        # request out (on_kill, on_killed, on_pausing, on_paused, ...) run in the process's stepping as well
        for name in ('y3', 'sync', 'gate', 'launcher'):
            for hook in ('on_run', 'on_running', 'on_wait', 'on_waiting', 'on_exit_running', 'on_output_emitted', 'on_entered'):
                for occ in (1, 2):
                    for do in (['kill', 'hk'], ['pause', 'hp']):
                        for other in (None, 'y3'):
                            procs = [{'program': SHAPES[name], 'pid': 1}]
                            if other:
                                procs.append({'program': SHAPES[other], 'pid': 2})
                            yield {'procs': procs, 'start_gaps': [0, 1][: len(procs)], 'nested': False, 'hook_plans': {'1': [{'hook': hook, 'occ': occ, 'pos': 'post', 'do': do}]}}
        # ... and a request made from the hooks of another request that is being carried out (a watchdog that kills what
        # gets paused, a supervisor that plays it again)
        for name in ('y3', 'sync', 'gate'):
            for hook in ('on_running', 'on_waiting', 'on_exit_running', 'on_entered'):
                for second_hook in ('on_paused', 'on_pausing'):
                    for pos in ('pre', 'post'):
                        for second in (['kill', 'pk'], ['play', None]):
                            for other in (None, 'y3'):
                                procs = [{'program': SHAPES[name], 'pid': 1}]
                                if other:
                                    procs.append({'program': SHAPES[other], 'pid': 2})
                                plans = [{'hook': hook, 'occ': 1, 'pos': 'post', 'do': ['pause', 'hp']}, {'hook': second_hook, 'occ': 1, 'pos': pos, 'do': second}]
                                yield {'procs': procs, 'start_gaps': [0, 1][: len(procs)], 'nested': False, 'hook_plans': {'1': plans}}
        for second_hook in ('on_paused', 'on_pausing'):
            for pos in ('pre', 'post'):
                for other in (None, 'y3'):
                    procs = [{'program': SELF_PAUSER, 'pid': 1}]
                    if other:
                        procs.append({'program': SHAPES[other], 'pid': 2})
                    yield {'procs': procs, 'start_gaps': [0, 1][: len(procs)], 'nested': False, 'hook_plans': {'1': [{'hook': second_hook, 'occ': 1, 'pos': pos, 'do': ['kill', 'pk']}]}}
        return
    if scope in ('pairs', 'triples'):
        k = 2 if scope == 'pairs' else 3
        for combo in itertools.product(names, repeat=k):
            for start_gap in (0, 1, 2):
                procs = [{'program': SHAPES[n], 'pid': i + 1} for i, n in enumerate(combo)]
                yield {'procs': procs, 'start_gaps': [start_gap * i for i in range(k)], 'nested': False}
    else:
        for nest in (NESTER, NESTER_ASYNC_PARENT):
            for other in names + [None]:
                for gap in (0, 1, 3):
                    procs = [{'program': nest, 'pid': 1}]
                    if other:
                        procs.append({'program': SHAPES[other], 'pid': 2})
                    yield {'procs': procs, 'start_gaps': [0, gap][: len(procs)], 'nested': True}
                    yield {'procs': list(reversed(procs)), 'start_gaps': [0, gap][: len(procs)], 'nested': True}


@st.composite
def _program(draw, depth, nested_ok, pid_base, selfcontained=False):
    n = draw(st.integers(1, 3))
    steps = []
    for idx in range(n):
        is_async = draw(st.booleans())
        body = []
        for j in range(draw(st.integers(0, 4))):
            kinds = ['out', 'soon', 'status', 'soon_parent'] + ([] if selfcontained else ['selfpause'])
            if is_async:
                kinds += ['yield', 'yield', 'yield'] + ([] if selfcontained else ['gate'])
            if depth > 0:
                kinds += ['launch'] + (['await_child'] if is_async else [])
                if nested_ok and not is_async:
                    kinds += ['nested', 'nested']
            kind = draw(st.sampled_from(kinds))
            if kind == 'yield':
                body.append(['yield'])
            elif kind == 'gate':
                body.append(['gate', draw(st.sampled_from(['g1', 'g2']))])
            elif kind == 'out':
                body.append(['out', draw(st.sampled_from(['x', 'ns.y'])), j])
            elif kind == 'soon':
                body.append(['soon', 'ok', 'c%d' % j])
            elif kind == 'soon_parent':
                body.append(['soon_parent', 'p%d' % j])
            elif kind == 'selfpause':
                body.append(['call', 'pause', 'sp%d' % j])
            elif kind == 'status':
                body.append(['status', 's'])
            else:
                child_pid = pid_base * 10 + idx * 5 + j
                # a process executed re-entrantly must be able to finish without the harness: no gates, waits, pauses
                body.append([kind, draw(_program(depth - 1, nested_ok, child_pid, selfcontained or kind == 'nested')), child_pid])
        if idx == n - 1:
            ret = draw(st.sampled_from([['value', 1], ['unsuccessful', 2], ['raise', 'e'], ['kill', 'k']]))
        elif selfcontained:
            ret = ['continue', idx + 1, [idx], {}]
        else:
            ret = draw(st.sampled_from([['continue', idx + 1, [idx], {}], ['wait', idx + 1, None, None]]))
        steps.append({'async': is_async, 'body': body, 'ret': ret})
    return {'steps': steps}


@st.composite
def _cases(draw, tier):
    nested = NESTED_MODE
    n = draw(st.integers(1, 4))
    procs = [{'program': draw(_program(2, nested, i + 1)), 'pid': i + 1} for i in range(n)]
    gaps = [draw(st.integers(0, 3)) for _ in range(n)]
    ctl = []
    for _ in range(draw(st.integers(0, 3))):
        ctl.append([draw(st.integers(0, 12)), draw(st.sampled_from(['any-child', 'any-child', 'any'])), draw(st.sampled_from(['pause', 'play', 'play', 'kill', 'soon_async', 'soon_plain']))])
    case = {'procs': procs, 'start_gaps': gaps, 'nested': nested, 'ctl': sorted(ctl)}
    if draw(st.integers(0, 2)) == 0:
        # only from hooks that the process's own stepping fires (on_playing & co. run in the code of whoever plays)
        case['hook_plans'] = {str(draw(st.integers(1, n))): [h for h in draw(gen.hook_plans(['kill', 'pause'], max_plans=2)) if h['do'][0] != 'fail' and h['hook'] in OWN_HOOKS]}
    return case


def strategy(tier):
    return _cases(tier)


# ---------------------------------------------------------------------------------------------
class _NoBlockSelector:
    """A re-entrant run that has nothing left to run would block in select() for ever: fail instead of hanging."""

    def __init__(self, inner):
        self._inner = inner

    def select(self, timeout=None):
        if timeout is None or timeout > 0:
            raise RuntimeError('pv: nested execution cannot make progress (generator precondition violated)')
        return self._inner.select(0)

    def __getattr__(self, name):
        return getattr(self._inner, name)


def _probe(proc, kind, w):
    pid = proc.pid

    class AsyncProbe:
        async def __call__(self):
            w.tr(pid, {'k': 'cb', 'tag': 'ext-async', 'cur': Process.current() is proc, 'state': proc.state.value})
            await asyncio.sleep(0)
            w.tr(pid, {'k': 'cb-resumed', 'tag': 'ext-async', 'cur': Process.current() is proc, 'state': proc.state.value})

    def plain_probe():
        w.tr(pid, {'k': 'cb', 'tag': 'ext-plain', 'cur': Process.current() is proc, 'state': proc.state.value})

    return AsyncProbe() if kind == 'soon_async' else plain_probe


def _uses_nested(program):
    for step in program['steps']:
        for item in step['body']:
            if item[0] == 'nested':
                return True
            if item[0] in ('launch', 'nested') and _uses_nested(item[1]):
                return True
    return False


def execute(case):
    viol = []
    classes = set()

    def v(clause, detail):
        viol.append({'clause': clause, 'detail': detail})

    needs_nested = case.get('nested') or any(_uses_nested(p['program']) for p in case['procs'] if 'program' in p)
    if needs_nested and not NESTED_MODE:
        # executed by the replay entry point or the corpus in an un-patched interpreter: patch now (the interpreter
        # is then dedicated to nested cases, which is what setup_worker arranges in bulk runs)
        setup_worker('enum', 0, 'nested')
    loop = StepLoop()
    asyncio.set_event_loop(loop)
    w = world.reset(loop)
    w.sample_current = True
    outside = []
    try:
        if NESTED_MODE:
            import nest_asyncio

            nest_asyncio.apply(loop)
            loop._selector = _NoBlockSelector(loop._selector)
        procs = []
        pending = []
        for spec, gap in zip(case['procs'], case['start_gaps']):
            pending.append((gap, spec))
        tick = 0
        started = 0

        def start_due():
            nonlocal started
            for gap, spec in list(pending):
                if gap <= tick:
                    pending.remove((gap, spec))
                    with loop.as_running():
                        if 'outline' in spec:
                            from .. import wc

                            proc = wc.make_workchain(spec['outline'], spec['behaviour'])(pid=spec['pid'], loop=loop)
                        else:
                            proc = make_class(spec['program'])(pid=spec['pid'], loop=loop)
                        procs.append(proc)
                        w.extra.setdefault('constructed', set()).add(proc.pid)
                        w.hook_plan[proc.pid] = list((case.get('hook_plans') or {}).get(str(proc.pid), []))
                        loop.create_task(proc.step_until_terminated())
                    started += 1

        ctl = list(case.get('ctl', []))
        externally_paused = set()

        def apply_ctl():
            for ev in list(ctl):
                if ev[0] <= tick:
                    ctl.remove(ev)
                    everyone = procs + list(w.extra.get('children', []))
                    if ev[1] == 'any':
                        targets = everyone[:1]
                    elif ev[1] == 'any-child':
                        targets = list(w.extra.get('children', []))[:1]
                    else:
                        targets = [p for p in everyone if str(p.pid) == ev[1]]
                    for target in targets:
                        with loop.as_running():
                            if ev[2] in ('soon_async', 'soon_plain'):
                                # whoever holds the process schedules a callback on it from outside any process code: a
                                # callable object with an async __call__, or a plain function
                                if not target.has_terminated():
                                    target.call_soon(_probe(target, ev[2], w))
                            elif ev[2] == 'pause':
                                # a request that is answered with a future was only registered: the process is stepping
                                # and carries it out itself (its hooks then run in its own stepping); one that is
                                # answered at once was carried out in the requester's code
                                if not asyncio.isfuture(target.pause('ext')):
                                    externally_paused.add(target.pid)
                            elif ev[2] == 'play':
                                target.play()
                            else:
                                if not asyncio.isfuture(target.kill('ext')):
                                    externally_paused.add(target.pid)

        start_due()
        for _ in range(4000):
            outside.append(Process.current())
            apply_ctl()
            ran = loop.step_one()
            tick += 1
            start_due()
            if not ran and not pending:
                # quiescent: open gates, resume waits; stop when nothing changes
                with loop.as_running():
                    opened = w.open_all_gates()
                    resumed = 0
                    for proc in procs + list(w.extra.get('children', [])):
                        if proc.paused and not proc.has_terminated():
                            proc.play()
                            resumed += 1
                        if proc.state.value == 'waiting':
                            try:
                                proc.resume('rv')
                                resumed += 1
                            except Exception as exc:  # noqa: BLE001
                                v('resume-raised', f'pid {proc.pid}: resume() of a waiting process raised {type(exc).__name__}: {exc}')
                if not opened and not resumed and not ctl:
                    break
        outside.append(Process.current())

        has_orphan = any(item[0] == 'orphan' for p in case['procs'] if 'program' in p for st_ in p['program']['steps'] for item in st_['body'])
        if any(o is not None for o in outside):
            v('harness-sees-process', 'Process.current() is not None between event-loop callbacks')
        sites = {}
        for pid, trace in w.trace.items():
            for e in trace:
                if 'cur' not in e:
                    continue
                site = e['k']
                if site == 'exit' and e.get('outcome') == 'raised' and has_orphan and str(pid).endswith('/90'):
                    continue  # the orphan's step being finalised by the garbage collector, in whatever context that is
                sites[site] = sites.get(site, 0) + 1
                if e.get('args_ok') is False:
                    v('callback-arguments', f"pid {pid}: the callback {e.get('tag')} scheduled with call_soon(cb, 1, 'a', k=2, flag=None) was called with {e.get('got')}")
                if not e['cur']:
                    v('current-in-user-code', f"pid {pid}: {site} of {e.get('step', e.get('tag'))}: Process.current() is not the process")
        for pid, hooks in w.hooks.items():
            counts = {}
            for hook, pos, cur in hooks:
                if pos == 'pre':
                    counts[hook] = counts.get(hook, 0) + 1
                if (hook, counts.get(hook, 0)) in CONSTRUCTION or hook.startswith(('step:', 'cb:')):
                    continue
                if hook == 'on_playing' or (hook in ('on_pausing', 'on_paused', 'on_kill', 'on_killed') and pid in externally_paused):
                    continue  # run in the requester's code (the harness)
                if pid in externally_paused and hook in ('on_entering', 'on_entered', 'on_exiting', 'on_exit_waiting', 'on_exit_running', 'on_terminated', 'on_close', 'on_except', 'on_excepted'):
                    continue  # may belong to a kill carried out directly by the harness's call (on_except: a hook plan that
                    # requests a kill from inside that very transition fails it - all of it in the harness's call)
                sites['hook'] = sites.get('hook', 0) + 1
                if cur is not True:
                    v('current-in-hook', f'pid {pid}: hook {hook} ({pos}, occurrence {counts.get(hook)}): Process.current() is not the process')
                    break
        # isolation: a scope left in one task is not felt in the context of a helper task that the step started earlier
        for (hpid, tag), samples in w.extra.get('helper_samples', {}).items():
            sites['helper'] = sites.get('helper', 0) + len(samples)
            if len(set(samples)) > 1:
                v('current-changed-under-spawned-code', f'pid {hpid}: the helper task {tag} started by a step saw Process.current() change without entering or leaving any scope itself: {samples}')
        all_procs = procs + list(w.extra.get('children', []))
        for proc in all_procs:
            if not proc.has_terminated():
                classes.add('not-terminated')
        for ctx in loop.escapes():
            if ctx['exc_type'] == 'ProgError':
                continue
            if has_orphan and 'Task was destroyed but it is pending' in ctx['message']:
                continue  # that is what an orphan is
            v('loop-exception', f"{ctx['message'][:70]} {ctx['exc_type']}: {ctx['exc_str']}")
            break
        n_children = len(w.extra.get('children', []))
        interleaved = len(case['procs']) >= 2 and sites.get('resumed', 0) >= 2
        if interleaved:
            classes.add('interleaved')
        if n_children:
            classes.add('children')
        if sites.get('after-nested'):
            classes.add('nested-execute')
        if sites.get('cb'):
            classes.add('callbacks')
        if any(r['who'].startswith('hook:') for r in w.futs):
            classes.add('request-from-own-hook')
        nontrivial = bool(interleaved or n_children or sites.get('cb'))
        history = {'sites': sites, 'procs': len(case['procs']), 'children': n_children, 'ticks': tick, 'nested_mode': NESTED_MODE}
    finally:
        for task in loop.all_tasks:
            task._log_destroy_pending = False
            if not task.done():
                task.cancel()
        try:
            loop.drain(300)
        except Exception:  # noqa: BLE001
            pass
        for task in loop.all_tasks:
            if task.done() and not task.cancelled():
                task.exception()
        loop.shutdown()
        asyncio.set_event_loop(None)
        world.reset(None)
        if 'orphan' in str(case):
            # hermeticity: what this case left to the garbage collector is finalised now, into a world nobody reads, and
            # not in the middle of a later case
            import gc

            gc.collect()
    classes.add('mode:' + ('nested' if NESTED_MODE else 'plain'))
    return {'violations': viol, 'nontrivial': nontrivial, 'classes': sorted(classes), 'history': history}


def extra_coverage(total):
    return {'sampling_note': 'per-site sample counts are in the samples[].history.sites of each sampled case'}


SIGNATURES = {}
