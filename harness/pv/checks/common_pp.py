"""Shared execution for C05 (pause/play transparency) and C06 (no lost wake-up): the run with requests and its twin."""

import copy

from ..exec import Exec
from ..programs import NOVALUE

DEFAULT_RESUMES = [21, 22, 23, 24, 25, 26, 27, 28]


def strip_calls(program):
    """The twin's program: identical steps without self-directed pause/play calls."""
    prog = copy.deepcopy(program)
    for step in prog['steps']:
        step['body'] = [it for it in step['body'] if it[0] != 'call']
    return prog


def run_with_requests(case, settle=True):
    """Run the case; returns (ex-like dict of observations).  Must be called inside no other Exec."""
    obs = {}
    with Exec(case) as ex:
        ex.start()
        ex.run_schedule()
        if any(ev[0] == 'cancel_task' for ev in case.get('schedule', ())):
            ex.event(['restep'])  # somebody steps the process again in the end
        ex.drain()
        # let a step blocked on a gate reach its boundary (no play, no resume): a pending pause can then take effect
        for _ in range(10):
            with ex.loop.as_running():
                opened = ex.world.open_all_gates()
            ex.drain()
            if not opened:
                break
        w = ex.world
        pid = ex.proc.pid
        obs['n_trace_schedule'] = len(w.trace.get(pid, []))
        obs['pre_settle'] = {
            'state': ex.state,
            'paused': ex.proc.paused,
            'terminated': ex.proc.has_terminated(),
            'n_enter': sum(1 for e in w.trace.get(pid, []) if e['k'] == 'enter'),
        }
        # index in the trace / call list at the end of the schedule
        obs['n_calls_schedule'] = len(w.futs)
        if settle:
            ex.settle(play=True, resumes=None if 'outline' in case else DEFAULT_RESUMES, open_gates=True)
        obs['trace'] = list(w.trace.get(pid, []))
        obs['steps'] = w.steps(pid)
        obs['calls'] = list(w.futs)
        obs['samples'] = list(ex.samples)
        obs['delivered'] = dict(ex.delivered)
        obs['views'] = ex.views()
        obs['escapes'] = [(c['message'][:80], c['exc_type'], c['exc_str']) for c in ex.loop.escapes()]
        obs['history'] = ex.history()
        obs['transitions'] = list(ex.transitions)
        obs['harness_errors'] = list(ex.harness_errors)
        # positions: for each call the number of trace entries that existed when it was issued is not known
        # from the record itself; approximate through 'sample' indices kept by Exec.event
    return obs


def run_twin(case, delivered):
    """The uninterrupted run: no pause/play, same wake-up values (logical events), gates open from the start."""
    if 'outline' in case:
        twin_case = {'outline': case['outline'], 'behaviour': case['behaviour'], 'schedule': [], 'pid': case.get('pid', 1)}
    else:
        twin_case = {'program': strip_calls(case['program']), 'schedule': [], 'pid': case.get('pid', 1)}
        # hooks that only report a status belong to the program, not to the requests
        twin_case['hooks'] = [h for h in case.get('hooks', []) if h['do'][0] == 'status']
    resumes = list(DEFAULT_RESUMES)
    for serial, value in delivered.items():
        while len(resumes) < serial:
            resumes.append(NOVALUE)
        resumes[serial - 1] = value
    obs = {}
    with Exec(twin_case, attach_listener=False) as ex:
        ex.start()
        for _ in range(40):
            ex.drain()
            if ex.proc.has_terminated():
                break
            with ex.loop.as_running():
                opened = ex.world.open_all_gates()
            if 'outline' in case:
                if not opened:
                    break
                continue
            if ex.state == 'waiting':
                serial = ex._wait_serial()
                if serial > ex.n_waits_resumed and serial - 1 < len(resumes):
                    ex.event(['resume', resumes[serial - 1]], who='twin')
                else:
                    break
        pid = ex.proc.pid
        obs['steps'] = ex.world.steps(pid)
        obs['views'] = ex.views()
        obs['status_final'] = ex.proc.status
    return obs
