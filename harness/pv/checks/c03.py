"""C03 -- a failure in user code ends the process EXCEPTED, never half-transitioned (fault enumeration)."""

from hypothesis import strategies as st

from .. import gen
from ..exec import Exec
from ..programs import HOOKS, NOTIFICATIONS, InjectedFault

ID = 'C03'
LEVEL = 'fault_enumeration'
RULE = (
    'for every scenario (program + control schedule + listener) a fault-free dry run counts how often each of the 23 '
    'lifecycle hooks, each step function (at entry and before returning), each call_soon callback and each listener '
    'notification is called; then EVERY (point, occurrence, before/after super()) is run once with one injected fault '
    '(complete enumeration per scenario, catalogue scenarios + Hypothesis-generated scenarios with a drawn fault point); '
    'every injected fault is non-trivial; distinct = (scenario hash, point, occurrence, position)'
)
ASSUMPTIONS = [
    'one injected fault per run and no other failure in the run (scenario programs do not raise by themselves); the fault is an Exception subclass raised by an override that otherwise calls super()',
    'exception contexts "Future exception was never retrieved" depend on garbage collection and are not judged',
]
BUDGET = {
    'quick': {'enum': ['catalogue'], 'hyp': 6000, 'shards': 8},
    'thorough': {'enum': ['catalogue'], 'hyp': 60000, 'shards': 16},
}

S = gen.S
MAIN = {
    'steps': [
        S([['out', 'x', 1], ['status', 'st0']], ['continue', 1, [1], {}]),
        S([['soon', 'ok', 'c1']], ['wait', 2, 'w', None]),
        S([['out', 'ns.y', 2]], ['value', 5]),
    ]
}
ASYNC = {
    'steps': [
        S([['yield'], ['out', 'x', 1], ['soon', 'ok', 'c1'], ['yield']], ['continue', 1, [], {}], True),
        S([['yield']], ['unsuccessful', 3], True),
    ]
}
FAILING = {'steps': [S([['yield']], ['raise', 'own'], True)]}
SCENARIOS = {
    'plain': {'program': MAIN, 'schedule': []},
    'pause-play': {'program': MAIN, 'schedule': [['tick', 1], ['pause', 'pm'], ['tick', 2], ['play'], ['tick', 1], ['resume', 7]]},
    'pause-created': {'program': MAIN, 'schedule': [['pause', 'p0'], ['tick', 1], ['play']]},
    'kill-waiting': {'program': MAIN, 'schedule': [['tick', 1], ['kill', 'k']]},
    'kill-created': {'program': MAIN, 'schedule': [['kill', 'k']]},
    'async': {'program': ASYNC, 'schedule': []},
    'async-pause-kill': {'program': ASYNC, 'schedule': [['tick', 1], ['pause', 'pm'], ['tick', 3], ['play'], ['tick', 1], ['kill', 'k']]},
    'selfkill': {'program': gen.CATALOGUE['selfkill'], 'schedule': []},
    # termination while paused: the stepping task is parked on the pause and must be released whatever the outcome
    'kill-while-paused': {'program': MAIN, 'schedule': [['tick', 1], ['pause', 'pm'], ['tick', 2], ['kill', 'k']]},
    'kill-while-paused-created': {'program': ASYNC, 'schedule': [['pause', 'p0'], ['tick', 1], ['kill', 'k']]},
    'callback-while-paused': {'program': {'steps': [S([['soon', 'ok', 'c1'], ['call', 'pause', 'sp']], ['continue', 1, [], {}]), S([['out', 'x', 1]], ['value', 2])]}, 'schedule': [['tick', 3], ['play']]},
    # callbacks scheduled from outside before the first step / while paused in CREATED
    'callback-before-first-step': {'program': MAIN, 'schedule': [['ext_soon', 'ok', 'e1'], ['tick', 2], ['ext_soon', 'ok', 'e2']]},
    'callback-while-paused-created': {'program': ASYNC, 'schedule': [['pause', 'p0'], ['ext_soon', 'ok', 'e1'], ['tick', 2], ['play']]},
    # a registered cleanup raises when the process is closed (that is logged, it is not the injected fault)
    'plain-cleanup-raises': {'program': MAIN, 'schedule': [], 'cleanup_raises': 1},
    'async-pause-kill-cleanup-raises': {'program': ASYNC, 'schedule': [['tick', 1], ['pause', 'pm'], ['tick', 3], ['play'], ['tick', 1], ['kill', 'k']], 'cleanup_raises': 0},
    # a request made by a listener or a hook during a transition, and a later hook of the same transition fails
    'listener-kill-on-running': {'program': MAIN, 'schedule': [], 'listener': [{'on': 'on_process_running', 'occ': 1, 'do': ['kill', 'lk']}]},
    'listener-kill-on-running2': {'program': MAIN, 'schedule': [], 'listener': [{'on': 'on_process_running', 'occ': 2, 'do': ['kill', 'lk']}]},
    'listener-kill-on-waiting': {'program': MAIN, 'schedule': [], 'listener': [{'on': 'on_process_waiting', 'occ': 1, 'do': ['kill', 'lk']}]},
    'listener-pause-on-waiting': {'program': MAIN, 'schedule': [['tick', 3], ['play'], ['tick', 1], ['resume', 7]], 'listener': [{'on': 'on_process_waiting', 'occ': 1, 'do': ['pause', 'lp']}]},
    # a listener answers the paused notification with play() (and the played one with a new pause): the hooks of that
    # nested request run inside the hook of the request that is being carried out
    'listener-play-on-paused': {'program': MAIN, 'schedule': [['tick', 1], ['pause', 'pm'], ['tick', 2], ['play'], ['tick', 1], ['resume', 7]], 'listener': [{'on': 'on_process_paused', 'occ': 1, 'do': ['play', None]}]},
    'listener-pause-on-played': {'program': MAIN, 'schedule': [['tick', 1], ['pause', 'pm'], ['tick', 2], ['play'], ['tick', 2], ['play'], ['tick', 1], ['resume', 7]], 'listener': [{'on': 'on_process_played', 'occ': 1, 'do': ['pause', 'again']}]},
    'hook-kill-in-on-run': {'program': ASYNC, 'schedule': [], 'hooks': [{'hook': 'on_run', 'occ': 2, 'pos': 'pre', 'do': ['kill', 'hk']}]},
    'hook-kill-in-on-wait': {'program': MAIN, 'schedule': [], 'hooks': [{'hook': 'on_wait', 'occ': 1, 'pos': 'post', 'do': ['kill', 'hk']}]},
    # the process has a loop of its own (not the thread's default loop, which never runs) and is controlled from
    # synchronous code while no loop is running
    'ownloop-kill-waiting': {'program': MAIN, 'schedule': [['tick', 1], ['kill', 'k']], 'decoy_loop': True},
    'ownloop-kill-created': {'program': MAIN, 'schedule': [['kill', 'k']], 'decoy_loop': True},
    'ownloop-pause-play': {'program': MAIN, 'schedule': [['tick', 1], ['pause', 'pm'], ['tick', 2], ['play'], ['tick', 1], ['resume', 7]], 'decoy_loop': True},
}

CONSTRUCT = {('on_create', 1), ('on_entering', 1), ('on_entered', 1)}
REQUESTER = ('on_pausing', 'on_paused', 'on_playing')


def _dry(scn):
    """Fault-free run of the scenario: hook / notification counts and the reference outcome."""
    case = {'program': scn['program'], 'schedule': scn.get('schedule', []), 'listener': scn.get('listener', []), 'hooks': scn.get('hooks', []), 'cleanup_raises': scn.get('cleanup_raises'), 'decoy_loop': scn.get('decoy_loop')}
    with Exec(case) as ex:
        ex.start()
        ex.run_schedule()
        ex.settle(play=True, resumes=[31, 32, 33, 34], open_gates=True)
        pid = ex.proc.pid
        counts = {h: c for (p, h), c in ex.world.hook_counts.items() if p == pid}
        notes = {}
        for (p, n), c in ex.world.listener_counts.items():
            if p == pid:
                notes[n] = c
        ref = {
            'state': ex.state,
            'steps': ex.world.steps(pid),
            'outputs': dict(ex.proc.outputs),
            'transitions': [(a, b) for a, b, _ in ex.transitions],
            'result': _safe(ex.proc.result),
        }
    return counts, notes, ref


def _safe(fn):
    try:
        return ['ok', fn()]
    except Exception as exc:  # noqa: BLE001
        return ['raise', type(exc).__name__]


def fault_points(scn):
    counts, notes, _ref = _dry(scn)
    points = []
    for hook in sorted(counts):
        for occ in range(1, counts[hook] + 1):
            if hook.startswith('cb:'):
                points.append({'hook': hook, 'occ': occ, 'pos': 'pre'})
            else:
                points.append({'hook': hook, 'occ': occ, 'pos': 'pre'})
                points.append({'hook': hook, 'occ': occ, 'pos': 'post'})
    for note in sorted(notes):
        for occ in range(1, notes[note] + 1):
            points.append({'listener': note, 'occ': occ})
    return points


STATE_EXIT = {'hook': 'state-exit', 'occ': 1, 'pos': 'post'}


def enumerate_cases(tier, scope):
    for name, scn in SCENARIOS.items():
        for point in fault_points(scn):
            yield {'scenario': scn, 'fault': point, 'tag': name}
    # an application-defined state (installed through get_state_classes()) whose exit() fails every time it is called
    for which in ('running', 'waiting'):
        for prog in (MAIN, ASYNC):
            for sched in ([], [['tick', 1], ['pause', 'pm'], ['tick', 2], ['play']], [['tick', 1], ['kill', 'k']]):
                yield {'scenario': {'program': dict(prog, failing_state_exit=which), 'schedule': sched}, 'fault': dict(STATE_EXIT), 'tag': 'state-exit:' + which}


@st.composite
def _cases(draw, tier):
    prog = draw(gen.programs(max_steps=4, self_calls=('pause', 'play', 'kill'), soon=True, soon_modes=('ok',), endings=('value', 'unsuccessful', 'kill')))
    sched = draw(gen.control_schedules(['pause', 'play', 'kill', 'resume', 'open'], max_events=3, max_gap=3)) if draw(st.booleans()) else []
    scn = {'program': prog, 'schedule': sched}
    if draw(st.integers(0, 3)) == 0:
        scn['cleanup_raises'] = draw(st.integers(0, 2))
    if draw(st.integers(0, 3)) == 0:
        scn['listener'] = draw(gen.listener_plans(['kill', 'pause', 'play'], max_plans=1))
    elif draw(st.integers(0, 3)) == 0:
        scn['hooks'] = [h for h in draw(gen.hook_plans(['kill', 'pause', 'play'], max_plans=1)) if h['do'][0] != 'fail']
    return {'scenario': scn, 'pick': draw(st.integers(0, 10**6))}


def strategy(tier):
    return _cases(tier)


def execute(case):
    scn = case['scenario']
    fault = case.get('fault')
    if fault is not None and fault.get('hook') == 'state-exit':
        counts, notes, ref = {}, {}, None  # the failure is part of the class: there is no fault-free run of it
    else:
        counts, notes, ref = _dry(scn)
    if fault is None:
        points = []
        for hook in sorted(counts):
            for occ in range(1, counts[hook] + 1):
                points.append({'hook': hook, 'occ': occ, 'pos': 'pre'})
                if not hook.startswith('cb:'):
                    points.append({'hook': hook, 'occ': occ, 'pos': 'post'})
        for note in sorted(notes):
            for occ in range(1, notes[note] + 1):
                points.append({'listener': note, 'occ': occ})
        import hashlib

        fault = points[int(hashlib.sha1(str(case['pick']).encode()).hexdigest(), 16) % len(points)]
    viol = []

    def v(clause, detail):
        viol.append({'clause': clause, 'detail': f'{_fname(fault)}: {detail}'})

    run_case = {'program': scn['program'], 'schedule': scn.get('schedule', []), 'listener': scn.get('listener', []), 'hooks': scn.get('hooks', []), 'cleanup_raises': scn.get('cleanup_raises'), 'decoy_loop': scn.get('decoy_loop')}
    with Exec(run_case) as ex:
        w = ex.world
        if 'listener' in fault:
            # (every other listener fault is one whose text cannot be rendered)
            # (... and a listener failing in a notification about the end of the process first takes itself off it)
            w.listener_fault = {'on': fault['listener'], 'occ': fault['occ'], 'unprintable': fault['occ'] % 2 == 0 or fault['listener'] in ('on_process_paused', 'on_process_finished'), 'unsubscribe': fault['listener'] in ('on_process_finished', 'on_process_killed', 'on_process_excepted', 'on_process_played')}
            klass = 'listener'
        elif fault['hook'] == 'state-exit':
            klass = 'excepted'
        else:
            w.fault = {'hook': fault['hook'], 'occ': fault['occ'], 'pos': fault['pos']}
            if (fault['hook'], fault['occ']) in CONSTRUCT:
                klass = 'construct'
            elif fault['hook'] in REQUESTER:
                klass = 'requester'
            else:
                klass = 'excepted'
        started = ex.start()
        fired = w.fault_fired
        if klass == 'construct':
            if started:
                v('construct-no-raise', 'the constructor returned a process although a construction-time hook raised')
            elif not (fired and len(fired) > 4 and ex.construct_error is fired[4]):
                v('construct-wrong-exception', f'constructor raised {ex.construct_error!r}, not the injected fault')
            return {'violations': viol, 'nontrivial': True, 'classes': ['class:construct'], 'history': {'fault': fault}}
        if not started:
            v('construct-raised', f'constructor raised {ex.construct_error!r}')
            return {'violations': viol, 'nontrivial': True, 'classes': ['class:' + klass], 'history': {'fault': fault}}
        ex.run_schedule()
        probe = None
        if klass == 'requester' and w.fault_fired is not None:
            # "leaves the process live and controllable": a further pause must still work, then play it again
            ex.drain()
            if not ex.proc.has_terminated():
                was_paused = ex.proc.paused
                rec = ex.event(['pause', 'probe-after-fault'], who='probe')
                ex.drain()
                for _ in range(6):
                    if ex.proc.paused or ex.proc.has_terminated():
                        break
                    with ex.loop.as_running():
                        if not ex.world.open_all_gates():
                            break
                    ex.drain()
                probe = {'raised': rec['raised'], 'paused': ex.proc.paused, 'terminated': ex.proc.has_terminated(), 'was_paused': was_paused, 'state': ex.state}
                fut = rec.get('_fut')
                if fut is not None and fut.done() and not fut.cancelled() and fut.exception() is not None:
                    probe['raised'] = repr(fut.exception())
        ex.drain()
        released_at_termination = None
        if ex.proc.has_terminated():
            # judged before the completion phase: its final play() would release a stepping task that termination
            # itself must release
            for _ in range(6):
                with ex.loop.as_running():
                    if not ex.world.open_all_gates():
                        break
                ex.drain()
            released_at_termination = ex.task.done()
        ex.settle(play=True, resumes=[31, 32, 33, 34], open_gates=True)
        fired = w.fault_fired
        views = ex.views()
        if views.get('decoy_scheduled') or views.get('future_loop_is_own') is False:
            v('left-its-loop', f"{views.get('decoy_scheduled')} callback(s) were scheduled on the thread's default loop; outcome future on the process's loop: {views.get('future_loop_is_own')}")
        pid = ex.proc.pid
        escapes = ex.loop.escapes()
        history = ex.history()
        history['fault'] = fault
        history['class'] = klass
        if any(r['who'].startswith('hook:') and r['raised'] and 'already transitioning' in r['raised'] for r in w.futs):
            # a hook plan asked for a transition from inside a transition that is carried out directly (here: the one
            # the injected fault caused): plumpy refuses by assertion, which makes the hook a second failing piece of user
            # code - outside "one injected fault per run"
            return {'violations': [], 'nontrivial': False, 'classes': ['hook-reentered-direct-transition'], 'history': history}
        if fired is None:
            # the fault point was not reached in this run (an earlier deviation): not a verdict about C03
            return {'violations': [], 'nontrivial': False, 'classes': ['not-fired'], 'history': history}
        exc = fired[4] if len(fired) > 4 else None
        if klass == 'excepted' and fault['hook'].startswith(('cb:', 'step:')) and fired[5]:
            klass = 'late-callback'  # the callback fired after termination: nothing may change (C01)

        if views['terminated'] and views['future_unretrieved']:
            v('future-exception-unretrieved', f"state {views['state']}: the exception of the process future was never retrieved: it reaches the loop's exception handler when the future is collected")
        if escapes:
            v('escaped-to-loop', f"{escapes[0]['message'][:60]} {escapes[0]['exc_type']}: {escapes[0]['exc_str']}")
        if views.get('task_done') and (views.get('task_cancelled') or views.get('task_exception') is not None):
            v('stepping-raised', f"step_until_terminated() ended with {views.get('task_exception')!r}")

        if klass in ('listener', 'late-callback'):
            got = {
                'state': views['state'],
                'steps': w.steps(pid),
                'outputs': dict(views['outputs']),
                'transitions': [(a, b) for a, b, _ in ex.transitions],
                'result': _safe(ex.proc.result),
            }
            for key in ('state', 'steps', 'outputs', 'transitions', 'result'):
                if got[key] != ref[key]:
                    v('listener-fault-visible', f'{key}: {got[key]} vs fault-free {ref[key]}')
                    break
        elif klass == 'requester':
            reported = False
            for rec in w.futs:
                if rec['what'] not in ('pause', 'play'):
                    continue
                if rec.get('_raised_exc') is exc:
                    reported = True
                    if not rec['live_before'] and rec['state_after'] in ('finished', 'killed', 'excepted'):
                        pass
                fut = rec.get('_fut')
                if fut is not None and fut.done() and not fut.cancelled() and fut.exception() is exc:
                    reported = True
            if probe is not None:
                if probe['raised']:
                    v('uncontrollable-after-pause-hook-fault', f"a later pause() failed: {probe['raised']}")
                elif not probe['paused'] and not probe['terminated']:
                    v('uncontrollable-after-pause-hook-fault', f"a later pause() never took effect (state {probe['state']})")
            # "reported to whoever requested the pause": there is nobody left to report to when that very request was
            # superseded, from inside the pause procedure it triggered, by a kill (its future ended cancelled); the rest
            # of the clause (live and controllable or properly terminated, nothing escaped, stepping returns) still holds
            superseded = any(
                rec['what'] == 'pause' and rec.get('_fut') is not None and rec['_fut'].cancelled() for rec in w.futs
            ) and any(rec['what'] == 'kill' and rec['who'].startswith(('listener:', 'hook:')) for rec in w.futs)
            if not reported and not superseded:
                v('pause-hook-fault-not-reported', 'no pause()/play() call raised the fault or returned a future carrying it')
            if views['state'] == 'excepted' and views['exception'][1] is exc:
                v('pause-hook-fault-excepted', 'the process ended EXCEPTED with the fault of a pause/play hook')
            elif views['state'] == 'excepted' and ref['state'] != 'excepted':
                # ... or with anything else: the fault went to whoever made the request, the process itself goes on as in
                # the fault-free run
                v('pause-hook-fault-excepted', f"the process ended EXCEPTED with {views['exception'][1]!r} after a pause/play hook failed (fault-free run: {ref['state']})")
            elif not views['terminated']:
                v('pause-hook-fault-stuck', f"process did not terminate after the fault (state {views['state']}, paused={views['paused']})")
        else:
            if views['state'] != 'excepted':
                v('not-excepted', f"final state {views['state']} (paused={views['paused']})")
            else:
                if views['exception'][0] != 'ok' or views['exception'][1] is not exc:
                    v('wrong-exception', f"exception() is {views['exception'][1]!r}")
                fexc = views.get('future_exception')
                if fexc is None or fexc[0] != 'ok' or fexc[1] is not exc:
                    v('future-not-failed', f'future gives {fexc if fexc is None else fexc[:2]} / result {views.get("future_result", [None])[:2]}')
                if views['closed'] is not True:
                    v('not-closed', str(views['closed']))
                if not views.get('task_done') or released_at_termination is False:
                    v('stepping-blocked', 'the task running step_until_terminated() is not done')
    return {'violations': viol, 'nontrivial': True, 'classes': ['class:' + klass, 'point:' + _fname(fault).split('#')[0]], 'history': history}


def _fname(fault):
    if 'listener' in fault:
        return f"listener.{fault['listener']}#{fault['occ']}"
    return f"{fault['hook']}#{fault['occ']}:{fault['pos']}"


def sig_after_close(case, verdict):
    """Fault raised by on_close or on_terminated *after* super() ran, i.e. after close() dropped the event callbacks:
    the process enters EXCEPTED with the fault but none of its own entry hooks run any more, so the future keeps the
    outcome of the first terminal state."""
    fault = (verdict.get('history') or {}).get('fault') or case.get('fault') or {}
    if fault.get('hook') not in ('on_close', 'on_terminated') or fault.get('pos') != 'post':
        return False
    return all(v['clause'] in ('future-not-failed',) for v in verdict['violations'])


SIGNATURES = {'fault_after_close': sig_after_close}
_ = (HOOKS, NOTIFICATIONS, InjectedFault)
