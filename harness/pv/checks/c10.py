"""C10 -- ToContext is a barrier: the next step sees every awaited result."""

from . import wc_await

ID = 'C10'
LEVEL = 'exploration'
RULE = (
    'cases = workchain (a, b, c) whose step a registers n<=4 awaitables (loop futures, launched child processes, '
    'already-completed futures) by returning ToContext, by calling to_context(), or both; each awaitable gets an outcome '
    '(value | exception | child killed) and the completions are delivered in a generated order with generated tick gaps; '
    'step b may re-assign a key; all orders, kinds, registration ways and outcome mixes are enumerated for n<=2 (quick) / '
    'n<=3 (thorough); non-trivial = n>=2 with a completion order different from the registration order, or a failing / '
    'killed item; distinct = SHA-1 of the case JSON'
)
ASSUMPTIONS = [
    'completions are delivered between two event-loop callbacks; a child completes several callbacks after its gate opens (observed, not assumed)',
    'the first failure is the first failing awaitable in observed completion order; noise from a second failing item is not judged beyond "nothing reaches the loop exception handler"',
]
BUDGET = {
    'quick': {'enum': [2], 'hyp': 1500, 'shards': 8},
    'thorough': {'enum': [3], 'hyp': 60000, 'shards': 16},
}


def enumerate_cases(tier, scope):
    yield from wc_await.enumerate_barrier(scope)


def strategy(tier):
    return wc_await.strategy_cases(False, True)


def execute(case):
    viol = []

    def v(clause, detail):
        viol.append({'clause': clause, 'detail': detail})

    obs = wc_await.run(case)
    kind = wc_await.judge(case, obs, v)
    order = [a['key'] for a in sorted((a for a in obs['awaited'] if a['order']), key=lambda a: a['order'])]
    reg = [a['key'] for a in obs['awaited'] if a['order']]
    out_of_order = len(order) >= 2 and order != reg
    failing = any(a['outcome'][0] != 'value' for a in case['awaits'])
    classes = ['n=%d' % len(case['awaits']), 'outcome:' + str(kind), 'final:' + obs['views']['state'], 'shape:' + (case.get('shape') or 'flat')]
    if out_of_order:
        classes.append('out-of-order')
    if any(a['kind'] == 'child' for a in case['awaits']):
        classes.append('has-child')
    if any(a['kind'] == 'done' for a in case['awaits']):
        classes.append('has-precompleted')
    if case.get('reassign'):
        classes.append('reassign')
    return {'violations': viol, 'nontrivial': bool(out_of_order or failing), 'classes': classes, 'history': obs['history']}


SIGNATURES = {}
