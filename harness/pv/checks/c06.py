"""C06 -- a wake-up is never lost to a concurrent pause or interruption."""

from hypothesis import strategies as st

from .. import gen
from . import common_pp

ID = 'C06'
LEVEL = 'exploration'
RULE = (
    'cases = a waiting process (or a workchain awaiting futures/children) with wake-up events (resume(v1), resume(None), '
    'completion of each awaitable) and pause/play requests in every order and every tick gap <=G (enumerated completely '
    'at the listed scopes; Hypothesis adds longer gaps, more waits and generated programs); the completion phase only '
    'plays and drains and never re-delivers a wake-up; non-trivial = a wake-up and a pause/play request fall between the '
    'same two step boundaries; distinct = SHA-1 of the case JSON'
)
ASSUMPTIONS = [
    'liveness is checked as quiescence: after every enabling event was delivered and the loop is empty the process must not be WAITING',
    'awaitable completions and resume calls are delivered between two event-loop callbacks',
]
BUDGET = {
    'quick': {'enum': ['p3', 'w2', 'wfail', 'pair3', 'tasks', 'killwithdrawn', 'listener', 'hookwithdrawn', 'token'], 'hyp': 2000, 'shards': 8},
    'thorough': {'enum': ['p3', 'p4', 'w2', 'w3', 'wfail', 'pair3', 'pair4', 'tasks', 'killwithdrawn', 'listener', 'hookwithdrawn', 'token'], 'hyp': 100000, 'shards': 16},
}
ALPHABET = [['resume', 'v1'], ['resume', None], ['pause', 'pm'], ['play']]


def enumerate_cases(tier, scope):
    cat = gen.CATALOGUE
    if scope in ('p3', 'p4'):
        k = int(scope[1])
        gap = 2
        for name in ('wait1', 'waitwait'):
            for kk in range(1, k + 1):
                for sched in gen.schedules(ALPHABET, kk, gap):
                    yield {'program': cat[name], 'schedule': [['tick', 1]] + sched, 'tag': f'{scope}:{name}'}
    elif scope == 'killwithdrawn':
        # a kill that its requester withdrew (it cancelled the future kill() returned) leaves a process that still has to
        # be woken up like any other: wake-ups before, at and after the withdrawal are not lost
        alpha = [['resume', 'v1'], ['resume', None], ['kill', 'kt'], ['withdraw'], ['pause', 'pm'], ['play']]
        for name in ('wait1', 'waitwait'):
            for kk in (3, 4):
                for sched in gen.schedules(alpha, kk, 1 if kk == 3 else 0):
                    kinds = [e[0] for e in sched]
                    if 'withdraw' not in kinds or 'kill' not in kinds[: kinds.index('withdraw')] or 'resume' not in kinds:
                        continue
                    if kinds.count('kill') > 1 or (kk == 4 and kinds.count('withdraw') > 1):
                        continue
                    yield {'program': cat[name], 'schedule': [['tick', 1]] + sched, 'tag': f'killwithdrawn:{name}'}
    elif scope == 'listener':
        # requests made by a listener from inside a notification (a supervisor pausing every process that starts to wait,
        # playing every process that was paused or starts to run) or by a lifecycle hook, around the wake-up
        notifs = ['on_process_waiting', 'on_process_running', 'on_process_paused', 'on_process_played']
        for name in ('wait1', 'waitwait'):
            for on in notifs:
                for occ in (1, 2):
                    for do in (['pause', 'lp'], ['play', None]):
                        for kk in (1, 2, 3):
                            for sched in gen.schedules(ALPHABET, kk, 1 if kk < 3 else 0):
                                kinds = [e[0] for e in sched]
                                if 'resume' not in kinds or (kk == 3 and (kinds.count('resume') > 1 or 'play' not in kinds)):
                                    continue
                                yield {'program': cat[name], 'schedule': [['tick', 1]] + sched, 'listener': [{'on': on, 'occ': occ, 'do': do}], 'tag': f'listener:{name}'}
            for hook in ('on_waiting', 'on_entered', 'on_exit_waiting', 'on_running', 'on_paused', 'on_playing'):
                for occ in (1, 2):
                    for do in (['pause', 'hp'], ['play', None]):
                        for kk in (1, 2):
                            for sched in gen.schedules(ALPHABET, kk, 1):
                                if 'resume' not in [e[0] for e in sched]:
                                    continue
                                yield {'program': cat[name], 'schedule': [['tick', 1]] + sched, 'hooks': [{'hook': hook, 'occ': occ, 'pos': 'post', 'do': do}], 'tag': f'hook:{name}'}
    elif scope == 'token':
        # the value of the wake-up is a bare sentinel object (`object()`): a value like any other, not "no value"
        alpha = [['resume', {'__token__': 1}], ['pause', 'pm'], ['play']]
        for name in ('wait1', 'waitwait'):
            for kk in (1, 2, 3):
                for sched in gen.schedules(alpha, kk, 1):
                    if 'resume' not in [e[0] for e in sched]:
                        continue
                    yield {'program': cat[name], 'schedule': [['tick', 1]] + sched, 'tag': f'token:{name}'}
        # ... and the process class has a WAITING state class of its own (installed through get_state_classes())
        for name in ('wait1', 'waitwait'):
            for kk in (1, 2):
                for sched in gen.schedules(ALPHABET, kk, 1):
                    if 'resume' not in [e[0] for e in sched]:
                        continue
                    yield {'program': dict(cat[name], sampling_waiting=True), 'schedule': [['tick', 1]] + sched, 'tag': f'ownstate:{name}'}
    elif scope == 'hookwithdrawn':
        # a hook or listener asks for a kill (pause) from inside a transition and drops the request at once: the wait that
        # was just entered is as good as any other
        for name in ('wait1', 'waitwait'):
            for what in ('killw', 'pausew'):
                for occ in (1, 2):
                    plans = [{'hooks': [{'hook': hook, 'occ': occ, 'pos': pos, 'do': [what, 'hw']}]} for hook in ('on_waiting', 'on_entered', 'on_exit_running', 'on_wait', 'on_running') for pos in ('pre', 'post')]
                    plans += [{'listener': [{'on': on, 'occ': occ, 'do': [what, 'lw']}]} for on in ('on_process_waiting', 'on_process_running')]
                    for plan in plans:
                        for sched in ([['resume', 'v1']], [['tick', 1], ['resume', 'v1']], [['resume', 'v1'], ['tick', 2], ['resume', 'v2']], [['tick', 2], ['resume', None], ['tick', 2], ['resume', 'v2']], [['pause', 'pm'], ['resume', 'v1'], ['play']]):
                            yield dict(plan, program=cat[name], schedule=[['tick', 1]] + sched, tag=f'hookwithdrawn:{name}')
    elif scope == 'tasks':
        # the task stepping the waiting process is cancelled by its caller around the wake-up, and the process is stepped
        # again later: the wake-up must survive that as well (sync steps only: a cancelled wait is simply waited again)
        alpha = [['resume', 'v1'], ['resume', None], ['pause', 'pm'], ['play'], ['cancel_task'], ['restep']]
        sync2 = {'steps': [gen.S([], ['wait', 1, 'w', None]), gen.S([['ctxinc', 'n']], ['wait', 2, 'w2', {'d': 1}]), gen.S([], ['value', 3])]}
        for name, prog in (('wait1', cat['wait1']), ('sync2', sync2)):
            for kk in (2, 3):
                for sched in gen.schedules(alpha, kk, 1):
                    kinds = [e[0] for e in sched]
                    if 'cancel_task' not in kinds or 'resume' not in kinds:
                        continue
                    yield {'program': prog, 'schedule': [['tick', 1]] + sched, 'tag': f'tasks:{name}'}
    elif scope in ('w2', 'w3'):
        from . import wc_await

        yield from wc_await.enumerate_cases(int(scope[1]))
    elif scope in ('pair3', 'pair4'):
        # two (three) waiting processes on one loop: a wake-up belongs to the process it was sent to
        import itertools

        k = int(scope[4])
        n = 2 if k == 3 else 3
        alpha = [[w, i] for i in range(n) for w in ('pause', 'play')] + [['resume', i, f'v{i}'] for i in range(n)]
        for kk in range(2, k + 1):
            for seq in itertools.product(alpha, repeat=kk):
                if not any(e[0] == 'resume' for e in seq) or not any(e[0] == 'pause' for e in seq):
                    continue
                if len({e[1] for e in seq}) < 2:
                    continue
                for gap in (0, 1):
                    sched = []
                    for e in seq:
                        if gap:
                            sched.append(['tick', gap])
                        sched.append(list(e))
                    yield {'kind': 'pair', 'n': n, 'schedule': sched}
    elif scope == 'wfail':
        from . import wc_await

        yield from wc_await.enumerate_failing()
    else:
        raise ValueError(scope)


@st.composite
def _cases(draw, tier):
    if draw(st.integers(0, 3)) == 0:
        from . import wc_await

        return draw(wc_await.strategy(tier))
    if draw(st.integers(0, 4)) == 0:
        n = draw(st.integers(2, 4))
        sched = []
        for _ in range(draw(st.integers(2, 8))):
            gap = draw(st.integers(0, 2))
            if gap:
                sched.append(['tick', gap])
            i = draw(st.integers(0, n - 1))
            what = draw(st.sampled_from(['pause', 'play', 'resume', 'resume']))
            sched.append(['resume', i, draw(st.sampled_from([f'v{i}', None, 0, f'w{i}']))] if what == 'resume' else [what, i])
        return {'kind': 'pair', 'n': n, 'schedule': sched}
    prog = draw(gen.programs(max_steps=5, self_calls=(), soon=False, endings=('value', 'unsuccessful'), waits=True))
    sched = draw(gen.control_schedules(['pause', 'play', 'resume', 'resume', 'open'], max_events=6, max_gap=3))
    case = {'program': prog, 'schedule': sched}
    if draw(st.integers(0, 2)) == 0:
        case['listener'] = draw(gen.listener_plans(['pause', 'play']))
    elif draw(st.integers(0, 2)) == 0:
        case['hooks'] = draw(gen.hook_plans(['pause', 'play']))
    return case


def strategy(tier):
    return _cases(tier)


PAIR_PROG = {'steps': [gen.S([], ['wait', 1, 'w', None]), gen.S([], ['wait', 2, 'w2', None]), gen.S([], ['value', 'end'])]}


def _execute_pair(case):
    """Several waiting processes of one class on one loop: every process continues exactly with the values that were
    sent to *it*, in order, and a process nobody resumed keeps waiting."""
    import asyncio

    from .. import world
    from ..programs import control, make_class
    from ..steploop import StepLoop

    viol = []

    def v(clause, detail):
        viol.append({'clause': clause, 'detail': detail})

    n = case['n']
    loop = StepLoop()
    asyncio.set_event_loop(loop)
    w = world.reset(loop)
    cls = make_class(PAIR_PROG)
    procs, tasks = [], []
    try:
        with loop.as_running():
            for i in range(n):
                proc = cls(pid=f'P{i}', loop=loop)
                procs.append(proc)
                task = loop.create_task(proc.step_until_terminated())
                task._pv_owned = True
                tasks.append(task)
        loop.drain()
        accepted = {i: [] for i in range(n)}  # values sent while the process was WAITING for its k-th wake-up, first one per wait
        same_iteration = False
        last_kind = {}
        for ev in case['schedule']:
            if ev[0] == 'tick':
                for _ in range(ev[1]):
                    loop.step_one()
                last_kind = {}
                continue
            i = ev[1]
            proc = procs[i]
            if ev[0] == 'resume':
                n_entered = sum(1 for e in w.trace.get(proc.pid, []) if e['k'] == 'enter')
                if proc.state.value == 'waiting' and len(accepted[i]) < n_entered:
                    accepted[i].append(ev[2])
                if any(k == 'pause' for j, k in last_kind.items() if j != i) or last_kind.get(i) == 'pause':
                    same_iteration = True
            with loop.as_running():
                control(proc, ev[0], ev[2] if len(ev) > 2 else None, who='ext')
            last_kind[i] = ev[0]
        loop.drain()
        for _ in range(3):
            with loop.as_running():
                for proc in procs:
                    if proc.paused:
                        control(proc, 'play', None, who='settle')
            loop.drain()
        for i, proc in enumerate(procs):
            got = [list(a) for _s, a, _k in w.steps(proc.pid)][1:]
            want = [[val] for val in accepted[i]]
            if got[: len(want)] != want or len(got) > len(want):
                v('wakeup-crossed', f'process {i} continued with {got}, the values sent to it while it waited were {accepted[i]}')
            elif proc.state.value == 'waiting' and len(accepted[i]) > len(got):
                v('lost-wakeup', f'process {i} was resumed with {accepted[i]} but is still WAITING after play and quiescence')
            exp_state = 'finished' if len(accepted[i]) >= 2 else 'waiting'
            if not viol and proc.state.value != exp_state:
                v('final-state', f'process {i}: {proc.state.value} expected {exp_state} after wake-ups {accepted[i]}')
        for ctx in loop.escapes():
            v('loop-exception', f"{ctx['message'][:60]} {ctx['exc_type']}: {ctx['exc_str']}")
            break
        history = {'schedule': case['schedule'], 'accepted': accepted, 'steps': {p.pid: w.steps(p.pid) for p in procs}, 'final': [p.state.value for p in procs]}
    finally:
        for task in tasks:
            task.cancel()
        loop.drain(500)
        for task in loop.all_tasks:
            task._log_destroy_pending = False
        loop.shutdown()
        asyncio.set_event_loop(None)
        world.reset(None)
    classes = ['pair', 'n=%d' % n]
    if same_iteration:
        classes.append('wakeup-races-request')
    return {'violations': viol, 'nontrivial': same_iteration, 'classes': classes, 'history': history}


def execute(case):
    if case.get('kind') == 'wc_await':
        from . import wc_await

        return wc_await.execute(case)
    if case.get('kind') == 'pair':
        return _execute_pair(case)
    viol = []
    classes = []

    def v(clause, detail):
        viol.append({'clause': clause, 'detail': detail})

    a = common_pp.run_with_requests(case)
    kills = [r for r in a['calls'] if r['what'] in ('kill', 'cancel')]
    if kills and not all(r.get('withdrawn') for r in kills):
        # a kill that was carried out (or never withdrawn) ends the run: C04's subject, nothing to say about wake-ups
        return {'violations': [], 'nontrivial': False, 'classes': ['kill-effective'], 'history': a['history']}
    b = common_pp.run_twin(case, a['delivered'])
    va = a['views']
    n_waits = sum(1 for t in a['transitions'] if t[1] == 'waiting')
    if va['state'] == 'waiting' and n_waits in a['delivered']:
        v('lost-wakeup', f"wait #{n_waits} was resumed with {a['delivered'][n_waits]!r} but the process is still WAITING after play and quiescence")
    elif a['steps'] != b['steps']:
        v('continuation-args', f"steps with requests {a['steps']} vs reference {b['steps']}")
    elif va['state'] != b['views']['state']:
        v('final-state', f"{va['state']} vs {b['views']['state']}")
    if va['state'] == 'finished' and not viol:
        # the value of every delivered wake-up reached a continuation as its only argument (also None and a bare sentinel
        # object - only resume() without a value means "no value"); the twin run cannot tell, it runs the same code
        from ..programs import NOVALUE, dec

        for serial, raw in sorted(a['delivered'].items()):
            if raw == NOVALUE:
                continue
            value = dec(raw) if isinstance(raw, (dict, list)) else raw
            if not any(len(args) == 1 and (args[0] is value or args[0] == value) and type(args[0]) is type(value) for _step, args, _kw in a['steps']):
                v('wake-up-value-lost', f'wait #{serial} was resumed with {raw!r}, but no continuation received it: {[(s_, ar) for s_, ar, _ in a["steps"]]!r:.200}')
                break
    for esc in a['escapes']:
        v('loop-exception', str(esc))
        break
    if not kills:
        # the woken process is not held back by a pause that nobody asked for: after a play() it stays un-paused until
        # the next pause request (the completion phase would play it again and hide that)
        from .c05 import _check_unpaused_after_play

        _check_unpaused_after_play(a, v)
    for r in a['calls']:
        if r['what'] == 'resume' and r['raised'] and r['state_before'] == 'waiting':
            v('resume-raised', f"resume in WAITING raised {r['raised']}")

    # non-trivial: a delivered resume shares its epoch with a pause/play request
    nontrivial = False
    for r in a['calls']:
        if r['what'] == 'resume' and r['state_before'] == 'waiting' and r.get('epoch') is not None:
            if any(o is not r and o['what'] in ('pause', 'play') and o.get('epoch') == r['epoch'] for o in a['calls']):
                nontrivial = True
    if nontrivial:
        classes.append('wakeup-races-request')
    if a['delivered']:
        classes.append('resume-delivered')
    classes.append('final:' + va['state'])
    return {'violations': viol, 'nontrivial': nontrivial, 'classes': classes, 'history': a['history']}


from .c04 import shrink_candidates as _shrink_prog  # noqa: E402


def shrink_candidates(case):
    if case.get('kind') in ('wc_await', 'pair'):
        return iter(())
    return _shrink_prog(case)


SIGNATURES = {}
