"""C06 -- a wake-up is never lost to a concurrent pause or interruption."""

from hypothesis import strategies as st

from .. import gen
from . import common_pp

ID = 'C06'
LEVEL = 'exploration'
RULE = (
    'cases = a waiting process (or a workchain awaiting futures/children) with wake-up events (resume(v1), resume(None), '
    'completion of each awaitable) and pause/play requests in every order and every tick gap <=G (enumerated completely '
    'at the listed scopes; Hypothesis adds longer gaps, more waits and generated programs); the completion phase only '
    'plays and drains and never re-delivers a wake-up; non-trivial = a wake-up and a pause/play request fall between the '
    'same two step boundaries; distinct = SHA-1 of the case JSON'
)
ASSUMPTIONS = [
    'liveness is checked as quiescence: after every enabling event was delivered and the loop is empty the process must not be WAITING',
    'awaitable completions and resume calls are delivered between two event-loop callbacks',
]
BUDGET = {
    'quick': {'enum': ['p3', 'w2', 'wfail'], 'hyp': 2000, 'shards': 8},
    'thorough': {'enum': ['p3', 'p4', 'w2', 'w3', 'wfail'], 'hyp': 100000, 'shards': 16},
}
ALPHABET = [['resume', 'v1'], ['resume', None], ['pause', 'pm'], ['play']]


def enumerate_cases(tier, scope):
    cat = gen.CATALOGUE
    if scope in ('p3', 'p4'):
        k = int(scope[1])
        gap = 2
        for name in ('wait1', 'waitwait'):
            for kk in range(1, k + 1):
                for sched in gen.schedules(ALPHABET, kk, gap):
                    yield {'program': cat[name], 'schedule': [['tick', 1]] + sched, 'tag': f'{scope}:{name}'}
    elif scope in ('w2', 'w3'):
        from . import wc_await

        yield from wc_await.enumerate_cases(int(scope[1]))
    elif scope == 'wfail':
        from . import wc_await

        yield from wc_await.enumerate_failing()
    else:
        raise ValueError(scope)


@st.composite
def _cases(draw, tier):
    if draw(st.integers(0, 3)) == 0:
        from . import wc_await

        return draw(wc_await.strategy(tier))
    prog = draw(gen.programs(max_steps=5, self_calls=(), soon=False, endings=('value', 'unsuccessful'), waits=True))
    sched = draw(gen.control_schedules(['pause', 'play', 'resume', 'resume', 'open'], max_events=6, max_gap=3))
    return {'program': prog, 'schedule': sched}


def strategy(tier):
    return _cases(tier)


def execute(case):
    if case.get('kind') == 'wc_await':
        from . import wc_await

        return wc_await.execute(case)
    viol = []
    classes = []

    def v(clause, detail):
        viol.append({'clause': clause, 'detail': detail})

    a = common_pp.run_with_requests(case)
    b = common_pp.run_twin(case, a['delivered'])
    va = a['views']
    n_waits = sum(1 for t in a['transitions'] if t[1] == 'waiting')
    if va['state'] == 'waiting' and n_waits in a['delivered']:
        v('lost-wakeup', f"wait #{n_waits} was resumed with {a['delivered'][n_waits]!r} but the process is still WAITING after play and quiescence")
    elif a['steps'] != b['steps']:
        v('continuation-args', f"steps with requests {a['steps']} vs reference {b['steps']}")
    elif va['state'] != b['views']['state']:
        v('final-state', f"{va['state']} vs {b['views']['state']}")
    for esc in a['escapes']:
        v('loop-exception', str(esc))
        break
    for r in a['calls']:
        if r['what'] == 'resume' and r['raised'] and r['state_before'] == 'waiting':
            v('resume-raised', f"resume in WAITING raised {r['raised']}")

    # non-trivial: a delivered resume shares its epoch with a pause/play request
    nontrivial = False
    for r in a['calls']:
        if r['what'] == 'resume' and r['state_before'] == 'waiting' and r.get('epoch') is not None:
            if any(o is not r and o['what'] in ('pause', 'play') and o.get('epoch') == r['epoch'] for o in a['calls']):
                nontrivial = True
    if nontrivial:
        classes.append('wakeup-races-request')
    if a['delivered']:
        classes.append('resume-delivered')
    classes.append('final:' + va['state'])
    return {'violations': viol, 'nontrivial': nontrivial, 'classes': classes, 'history': a['history']}


from .c04 import shrink_candidates as _shrink_prog  # noqa: E402


def shrink_candidates(case):
    if case.get('kind') == 'wc_await':
        return iter(())
    return _shrink_prog(case)


SIGNATURES = {}
