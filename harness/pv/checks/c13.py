"""C13 -- a step's return value alone decides what happens next, with exact arguments."""

import copy

from hypothesis import strategies as st

from .. import gen, restore
from ..programs import NOVALUE, step_name

ID = 'C13'
LEVEL = 'exploration'
RULE = (
    'cases = chains of <=6 steps whose return values are Continue(f,*a,**k), Wait(f,msg,data) (+ a resume value or none), '
    'a plain value, Stop, UnsuccessfulResult or Kill(msg), with generated positional/keyword arguments and resume values; '
    'each chain is run uninterrupted and once more from a pickled checkpoint taken at every state entry and in every lifecycle hook between a step return and the next state; the oracle is a '
    'reference interpreter of the command semantics; non-trivial = the chain carries a keyword argument, a resume value '
    'or a restore point after the first step; distinct = SHA-1 of the case JSON'
)
ASSUMPTIONS = [
    'arguments are plain picklable values; checkpoints are taken at state entries (step boundaries) and from lifecycle hooks that run while CREATED/RUNNING is being left (there the step that just returned may be executed again)',
    'every restore uses a fresh deserialisation in a fresh event loop',
]
BUDGET = {
    'quick': {'enum': ['small'], 'hyp': 1500, 'shards': 8},
    'thorough': {'enum': ['small'], 'hyp': 60000, 'shards': 16},
}

# hooks that run between the return of a step and the entry of the next state, while the old state is still current
HOOK_CKPTS = ('on_exit_running', 'on_exiting', 'on_run', 'on_wait', 'on_finish', 'on_kill', 'on_entering')
ARGS = st.lists(st.one_of(st.integers(-1, 3), st.sampled_from(['a', '']), st.none(), st.booleans(), st.lists(st.integers(0, 2), max_size=2)), max_size=3)
KWARGS = st.dictionaries(st.sampled_from(['p', 'q', 'r', 'label', 'state_label', 'process', 'run_fn', 'continue_fn', 'args', 'kwargs', 'msg', 'data']), st.one_of(st.integers(0, 3), st.sampled_from(['x']), st.none()), max_size=3)
RESUMES = st.one_of(st.just(NOVALUE), st.integers(0, 3), st.sampled_from(['v', '']), st.none(), st.lists(st.integers(0, 1), max_size=2), st.just({'__exc__': 'an exception instance is a value too'}), st.just({'__tuple__': [1, 2]}), st.booleans())


def enumerate_cases(tier, scope):
    """A small complete family: every pair (first command, last command) with representative arguments."""
    firsts = [
        ['continue', 1, [], {}],
        ['continue', 1, [1, 'a'], {}],
        ['continue', 1, [], {'p': 1}],
        ['continue', 1, [0], {'p': None, 'q': 'x'}],
        # keyword names are the caller's business: names that plumpy uses for its own parameters are keywords like any other
        ['continue', 1, [], {'label': 1, 'state_label': 2}],
        ['continue', 1, [2], {'process': 'x', 'run_fn': None}],
        ['continue', 1, [], {'continue_fn': 1, 'args': [1], 'kwargs': {'a': 1}}],
        ['wait', 1, None, None],
        ['wait', 1, 'msg', {'d': [1]}],
    ]
    lasts = [['value', 5], ['value', None], ['value', {'__done_future__': 5}], ['stop', {'__done_future__': 1}, True], ['stop', 7, True], ['stop', 7, False], ['unsuccessful', 3], ['unsuccessful', '__default__'], ['unsuccessful', 0], ['kill', 'bye'], ['kill', None], ['kill', '__nomsg__'], ['raise', 'e']]
    for first in firsts:
        for last in lasts:
            for res in (NOVALUE, 'v', None, 0, False, {'__exc__': 'boom'}, {'__tuple__': []}):
                if first[0] != 'wait' and res != NOVALUE:
                    continue
                for is_async in (False, True):
                    prog = {'steps': [gen.S([], first, is_async), gen.S([['yield']] if is_async else [], last, is_async)]}
                    yield {'program': prog, 'resumes': [res]}
                    if res in (NOVALUE, 'v', None):
                        yield {'program': prog, 'resumes': [res], 'own_loop': True}
                    if res in (NOVALUE, 'v') and last[0] in ('value', 'raise'):
                        yield {'program': dict(prog, initial=[[3, 'a'], {'scale': 2, 'label': None}]), 'resumes': [res]}
                        yield {'program': dict(prog, initial=[[], {'k': [1]}]), 'resumes': [res]}
                    if res in (NOVALUE, 'v'):
                        yield {'program': dict(prog, command_subclasses=True), 'resumes': [res]}
                    if first[0] == 'wait' and res in ('v', None):
                        yield {'program': prog, 'resumes': [res], 'enter_resumes': {'0': 'early' if res is None else None}}


@st.composite
def _cases(draw, tier):
    n = draw(st.integers(1, 6))
    steps = []
    nwaits = 0
    for idx in range(n):
        is_async = draw(st.booleans())
        body = [['yield']] if is_async and draw(st.booleans()) else []
        if idx == n - 1:
            kind = draw(st.sampled_from(['value', 'stop', 'unsuccessful', 'kill', 'value']))
            if kind == 'value':
                ret = ['value', draw(st.one_of(st.integers(-1, 3), st.none(), st.sampled_from(['res']), st.just({'__done_future__': 7})))]
            elif kind == 'stop':
                ret = ['stop', draw(st.integers(0, 3)), draw(st.booleans())]
            elif kind == 'unsuccessful':
                ret = ['unsuccessful', draw(st.integers(0, 3))]
            else:
                ret = ['kill', draw(st.sampled_from(['m1', '', None, '__nomsg__']))]
        else:
            nxt = draw(st.integers(idx + 1, n - 1))
            if draw(st.integers(0, 2)) == 0:
                ret = ['wait', nxt, draw(st.sampled_from([None, 'msg'])), draw(st.sampled_from([None, 1, {'k': [1, 2]}]))]
                nwaits += 1
            else:
                ret = ['continue', nxt, draw(ARGS), draw(KWARGS)]
        steps.append({'async': is_async, 'body': body, 'ret': ret})
    resumes = [draw(RESUMES) for _ in range(nwaits)]
    case = {'program': {'steps': steps}, 'resumes': resumes}
    if draw(st.integers(0, 3)) == 0:
        case['program']['command_subclasses'] = True  # the steps return application-defined subclasses of the commands
    if nwaits and draw(st.integers(0, 3)) == 0:
        # an application-defined WAITING state that resumes itself while it is being entered
        case['enter_resumes'] = {str(i): draw(st.sampled_from(['early', None, 0, {'__tuple__': [1]}])) for i in range(nwaits) if draw(st.booleans())}
    if draw(st.integers(0, 3)) == 0:
        case['own_loop'] = True
    if draw(st.integers(0, 4)) == 0:
        case['program']['initial'] = [draw(st.lists(st.sampled_from([0, 1, 'a', None]), max_size=2)), draw(st.dictionaries(st.sampled_from(['p', 'q', 'scale']), st.sampled_from([0, 2, 'x', None]), max_size=2))]
    return case


def strategy(tier):
    return _cases(tier)


def model(program, resumes, enter_resumes=None):
    enter_resumes = enter_resumes or {}
    idx, args, kwargs = 0, [], {}
    if program.get('initial') is not None:
        args, kwargs = program['initial']  # the first step is started with these (create_initial_state override)
    calls = []
    nwait = 0
    for _ in range(64):
        calls.append((step_name(idx), list(args), dict(kwargs)))
        ret = program['steps'][idx]['ret']
        kind = ret[0]
        if kind == 'continue':
            idx, args, kwargs = ret[1], ret[2] or [], ret[3] or {}
        elif kind == 'wait':
            value = resumes[nwait] if nwait < len(resumes) else restore.DEFAULT_RESUMES[nwait]
            if str(nwait) in enter_resumes:
                value = enter_resumes[str(nwait)]  # resumed while the state was being entered: that wake-up is the first
            nwait += 1
            idx, kwargs = ret[1], {}
            args = [] if value == NOVALUE else [value]
        elif kind == 'value':
            return calls, {'state': 'finished', 'result': ['ok', ret[1]], 'successful': ['ok', True]}
        elif kind == 'stop':
            return calls, {'state': 'finished', 'result': ['ok', ret[1]], 'successful': ['ok', bool(ret[2])]}
        elif kind == 'unsuccessful':
            return calls, {'state': 'finished', 'result': ['ok', None if ret[1] == '__default__' else ret[1]], 'successful': ['ok', False]}
        elif kind == 'kill':
            return calls, {'state': 'killed', 'kill_text': '<none>' if ret[1] == '__nomsg__' else ret[1]}
        elif kind == 'raise':
            return calls, {'state': 'excepted', 'exception': ['ProgError', [repr(ret[1])]]}
    raise AssertionError('model did not terminate')


def _norm_value(value):
    from ..programs import dec

    import asyncio

    if isinstance(value, dict) and len(value) == 1 and '__done_future__' in value:
        return ['<future>', _norm_value(value['__done_future__'])]
    if isinstance(value, asyncio.Future):
        return ['<future>', _norm_value(value.result()) if value.done() and not value.cancelled() and value.exception() is None else '<pending>']
    value = dec(value)
    if isinstance(value, BaseException):
        return ['<exception>', type(value).__name__, [repr(a) for a in value.args]]
    if isinstance(value, tuple):
        return ['<tuple>'] + [_norm_value(v) for v in value]
    if isinstance(value, list):
        return [_norm_value(v) for v in value]
    if isinstance(value, dict):
        return {k: _norm_value(v) for k, v in value.items()}
    return value


def _norm_calls(calls):
    return [(s, [_norm_value(x) for x in a], {k: _norm_value(x) for k, x in dict(kw).items()}) for s, a, kw in calls]


def _check_outcome(summary, expected, v, where):
    if summary['state'] != expected['state']:
        v('final-state', f"{where}: {summary['state']} expected {expected['state']}")
        return
    if expected['state'] == 'finished':
        got_result = [summary['result'][0], _norm_value(summary['result'][1])] if summary['result'][0] == 'ok' else summary['result']
        want_result = [expected['result'][0], _norm_value(expected['result'][1])]
        if summary['result'] != expected['result'] and got_result != want_result:
            v('result', f"{where}: result {summary['result']} expected {expected['result']}")
        if summary['successful'] != expected['successful']:
            v('successful', f"{where}: successful {summary['successful']} expected {expected['successful']}")
    elif expected['state'] == 'killed':
        msg = summary['killed_msg']
        text = msg[1].get('message') if msg[0] == 'ok' and isinstance(msg[1], dict) else '<none>'
        if text != expected['kill_text']:
            v('kill-msg', f"{where}: killed_msg text {text!r} expected {expected['kill_text']!r}")
    elif expected['state'] == 'excepted':
        if summary['exception'] != expected['exception']:
            v('exception', f"{where}: {summary['exception']} expected {expected['exception']}")


def execute(case):
    viol = []
    classes = []

    def v(clause, detail):
        viol.append({'clause': clause, 'detail': detail})

    program = case['program']
    resumes = list(case.get('resumes', []))
    full_resumes = resumes + restore.DEFAULT_RESUMES[len(resumes) :]
    enter_resumes = case.get('enter_resumes') or {}
    exp_calls, exp_outcome = model(program, resumes, enter_resumes)
    if enter_resumes:
        program = dict(program, eager_waiting=True)
    # own_loop: the process has a loop of its own (not the thread's default loop) and is constructed, loaded from its
    # checkpoints and woken up by synchronous code while no loop is running
    run_case = {'program': program, 'schedule': [], 'decoy_loop': bool(case.get('own_loop'))}

    def plan_enter_resumes(ex):
        ex.world.extra['resume_on_enter'] = {ex.proc.pid: {int(k): val for k, val in enter_resumes.items()}}

    ref = restore.run_reference(run_case, medium='pickle', resumes=full_resumes, hook_ckpts=HOOK_CKPTS, before_complete=plan_enter_resumes if enter_resumes else None)
    if 'construct_error' in ref:
        return {'violations': [{'clause': 'construct', 'detail': repr(ref['construct_error'])}], 'nontrivial': False, 'classes': []}
    got = _norm_calls(ref['steps'])
    exp_calls = _norm_calls(exp_calls)
    if got != exp_calls:
        v('continuation-args', f'executed {got} expected {exp_calls}')
    _check_outcome(ref['summary'], exp_outcome, v, 'uninterrupted')
    n_restores = 0
    n_hook = 0
    if not viol and not enter_resumes:
        for ckpt in ref['checkpoints']:
            if 'error' in ckpt and ckpt['state'] in ('finished', 'excepted', 'killed'):
                continue  # a terminal checkpoint is not restored here; whether a result is serialisable is not C13's subject
            if 'error' in ckpt:
                v('save-failed', f"state entry #{ckpt['index']} ({ckpt['state']}): {ckpt['error']!r}")
                continue
            if ckpt['state'] in ('finished', 'excepted', 'killed'):
                continue
            run = restore.run_from(run_case, ckpt, 'pickle', resumes=full_resumes)
            n_restores += 1
            if 'load_error' in run:
                v('load-failed', f"checkpoint #{ckpt['index']} ({ckpt['state']}): {run['load_error']!r}")
                continue
            want = _norm_calls(restore.steps_after(ref, ckpt))
            got = _norm_calls(run['steps'])
            if ckpt['why'].startswith('hook:'):
                # taken while the old state was still current: the step that had just returned may run once more
                # (at-least-once), everything after it is exactly the reference
                n_hook += 1
                entered = [e for e in ref['trace'][: ckpt['n_trace']] if e['k'] == 'enter']
                again = _norm_calls([(e['step'], e['args'], e['kwargs']) for e in entered[-1:]])
                if got != want and got != again + want:
                    v('restored-continuation-args', f"restored from a checkpoint taken in {ckpt['why'][5:]} after {len(entered)} steps: executed {got} expected {want} (optionally preceded by {again})")
            elif got != want:
                v('restored-continuation-args', f"restored at entry #{ckpt['index']} ({ckpt['state']}): executed {got} expected {want}")
            _check_outcome(run['summary'], exp_outcome, v, f"restored at entry #{ckpt['index']}")
    has_kwargs = any(s['ret'][0] == 'continue' and s['ret'][3] for s in program['steps'])
    has_resume = any(s['ret'][0] == 'wait' for s in program['steps'][: len(exp_calls)]) and any(r != NOVALUE for r in resumes)
    if has_kwargs:
        classes.append('kwargs')
    if has_resume:
        classes.append('resume-value')
    if n_restores > 1:
        classes.append('restores')
    if n_hook:
        classes.append('hook-time-checkpoint')
    if enter_resumes:
        classes.append('resumed-while-entering')
    if program.get('command_subclasses'):
        classes.append('command-subclasses')
    classes.append('end:' + exp_outcome['state'])
    return {
        'violations': viol,
        'nontrivial': bool(has_kwargs or has_resume or n_restores > 1),
        'classes': classes,
        'history': {'executed': ref['steps'], 'outcome': ref['summary'], 'restores': n_restores},
    }


def shrink_candidates(case):
    prog = case['program']
    for si, step in enumerate(prog['steps']):
        if step['ret'][0] == 'continue':
            for part in (2, 3):
                if step['ret'][part]:
                    cand = copy.deepcopy(case)
                    cand['program']['steps'][si]['ret'][part] = [] if part == 2 else {}
                    yield cand
    if len(prog['steps']) > 1:
        last = len(prog['steps']) - 1
        refs = [s['ret'][1] for s in prog['steps'] if s['ret'][0] in ('continue', 'wait')]
        if last not in refs:
            cand = copy.deepcopy(case)
            cand['program']['steps'].pop()
            yield cand


SIGNATURES = {}
