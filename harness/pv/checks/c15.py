"""C15 -- exposing ports copies exactly the selected ports, independently of the source."""

import copy
import itertools

from hypothesis import strategies as st
from plumpy import Process
from plumpy import ports as real

from ..models import expose as em
from ..models import ports as pm

ID = 'C15'
LEVEL = 'exploration'
RULE = (
    'cases = (source port tree over the names {a, ab, abc, b}, i.e. string-prefix collisions by construction; include | '
    'exclude | no rule set over its nested port paths, no rule an ancestor of another; target namespace None | t | t.u; '
    'namespace option overrides; destination pre-populated with disjoint and colliding names; through expose_inputs / '
    'expose_outputs of generated Process classes or PortNamespace.absorb directly); then both sides are mutated (setters, '
    'added and removed ports) to test independence; non-trivial = a rule names a nested path and a sibling shares its '
    'prefix; distinct = SHA-1 of the case JSON'
)
ASSUMPTIONS = [
    'no rule is an ancestor of another rule in the same set (quantifier of C15)',
    'destination ports whose names collide with exposed ones are replaced; only non-colliding destination ports must stay in place',
]
BUDGET = {
    'quick': {'enum': ['rules'], 'hyp': 3000, 'shards': 8},
    'thorough': {'enum': ['rules'], 'hyp': 120000, 'shards': 16},
}
NAMES = ['a', 'ab', 'abc', 'b']


def _p(i=0):
    shapes = [
        pm.port(required=True, valid_type='int'),
        pm.port(required=False, valid_type='str', validator='short'),
        pm.port(required=True, valid_type=None, default=['plain', 1]),
        pm.port(required=False, valid_type='num', validator='nonneg', default=['callable', 2]),
        pm.port(required=False, valid_type=None, default=['plain', ['base']]),
        pm.port(required=False, valid_type='dict', default=['plain', {'k': [1]}]),
    ]
    port = copy.deepcopy(shapes[i % len(shapes)])
    port['help'] = 'help %d' % i if i % 2 else None
    return port


SOURCE = pm.ns(
    {
        'a': _p(0),
        'ab': pm.ns({'x': _p(1), 'y': _p(5), 'xy': pm.ns({'z': _p(3)}, required=False, dynamic=True)}, required=False, valid_type='int', validator='small'),
        'abc': pm.ns({'x': _p(4), 'xx': _p(0)}, required=True, dynamic=False, populate_defaults=False),
        'b': _p(3),
    },
    required=False,
    dynamic=True,
    validator='has_a',
)
SOURCE['help'] = 'source help'
ALL_PATHS = ['a', 'ab', 'ab.x', 'ab.y', 'ab.xy', 'ab.xy.z', 'abc', 'abc.x', 'abc.xx', 'b', 'abcd', 'ab.nope', 'x']


def _no_ancestors(rules):
    for r1 in rules:
        for r2 in rules:
            if r1 != r2 and r2.startswith(r1 + '.'):
                return False
    return True


def enumerate_cases(tier, scope):
    dests = [pm.ns({}), pm.ns({'keep': _p(1), 'ab': _p(0)}), pm.ns({'t': pm.ns({'own': _p(2)}), 'keep': _p(3)})]
    for size in (0, 1, 2):
        for rules in itertools.combinations(ALL_PATHS, size):
            if not _no_ancestors(rules):
                continue
            for mode in ('include', 'exclude') if size else ('none',):
                for namespace in (None, 't', 't.u'):
                    for di, dest in enumerate(dests):
                        for options in ({}, {'required': True, 'help': 'over'}):
                            for via in ('inputs', 'outputs', 'absorb') if (di == 0 and not options) else ('inputs',):
                                yield {
                                    'source': SOURCE,
                                    'dest': dest,
                                    'mode': mode,
                                    'rules': list(rules),
                                    'namespace': namespace,
                                    'options': options,
                                    'via': via,
                                }
    # spec classes with another namespace separator
    for sep in ('__', '/'):
        for size in (1, 2):
            for rules in itertools.combinations(ALL_PATHS[:10], size):
                if not _no_ancestors(rules) or not any('.' in r for r in rules):
                    continue
                for mode in ('include', 'exclude'):
                    for namespace, via in ((None, 'inputs'), ('t.u', 'outputs'), ('t', 'absorb')):
                        yield {'source': SOURCE, 'dest': dests[1], 'mode': mode, 'rules': list(rules), 'namespace': namespace, 'options': {}, 'via': via, 'sep': sep}
    # the arguments given in their documented order instead of by keyword; '' for "no namespace"; a source port that was
    # re-filed under another key (ns['new'] = ns.pop('old')) is exposed under the key it has now
    for size in (1, 2):
        for rules in itertools.combinations(ALL_PATHS[:8], size):
            if not _no_ancestors(rules):
                continue
            for mode in ('include', 'exclude'):
                for via in ('inputs', 'outputs', 'absorb'):
                    yield {'source': SOURCE, 'dest': dests[1], 'mode': mode, 'rules': list(rules), 'namespace': 't', 'options': {}, 'via': via, 'positional': True}
                    yield {'source': SOURCE, 'dest': dests[1], 'mode': mode, 'rules': list(rules), 'namespace': '', 'options': {}, 'via': via}
    first = sorted(SOURCE['ports'])[0]
    for mode, rules in (('none', []), ('include', ['renamed']), ('exclude', ['renamed']), ('include', [sorted(SOURCE['ports'])[-1]])):
        for di in (0, 1):
            for namespace in (None, 't'):
                for via in ('inputs', 'outputs', 'absorb'):
                    yield {'source': SOURCE, 'dest': dests[di], 'mode': mode, 'rules': rules, 'namespace': namespace, 'options': {}, 'via': via, 'rename_source': [first, 'renamed']}
    # include and exclude both given, one of them empty: refused like any other combination of the two
    for mode in ('include+empty', 'exclude+empty'):
        for rules in (['a'], ['ab.x', 'b']):
            for namespace in (None, 't'):
                for via in ('inputs', 'outputs', 'absorb'):
                    yield {'source': SOURCE, 'dest': dests[1], 'mode': mode, 'rules': rules, 'namespace': namespace, 'options': {}, 'via': via}
    # what is not wanted is left out of the call (the declared defaults of the parameters are used)
    for size in (0, 1):
        for rules in itertools.combinations(ALL_PATHS[:8], size):
            for mode in ('include', 'exclude') if size else ('none',):
                for namespace in (None, 't'):
                    for via in ('inputs', 'outputs'):
                        yield {'source': SOURCE, 'dest': dests[1], 'mode': mode, 'rules': list(rules), 'namespace': namespace, 'options': {}, 'via': via, 'omit_none': True}
    # the destination spec has a namespace class of its own, the source the stock one; the source is exposed a second
    # time into a namespace that the first expose copied
    for via in ('inputs', 'outputs'):
        for first_ns in ('t', None):
            for sub in ('ab', 'abc', 'ab.xy'):
                for dest_class in (True, False):
                    yield {'source': SOURCE, 'dest': dests[0], 'mode': 'none', 'rules': [], 'namespace': first_ns, 'options': {}, 'via': via, 'dest_class': dest_class, 'then': {'namespace': (first_ns + '.' if first_ns else '') + sub + '.again'}}
                    yield {'source': SOURCE, 'dest': dests[0], 'mode': 'none', 'rules': [], 'namespace': first_ns, 'options': {}, 'via': via, 'dest_class': dest_class, 'then': {'namespace': (first_ns + '.' if first_ns else '') + sub}}
    yield {'source': SOURCE, 'dest': dests[0], 'mode': 'both', 'rules': ['a'], 'namespace': None, 'options': {}, 'via': 'inputs'}
    yield {'source': SOURCE, 'dest': dests[0], 'mode': 'both', 'rules': ['a'], 'namespace': 't', 'options': {}, 'via': 'absorb'}
    for namespace in (None, 't', 't.u', 'fresh.deep'):
        for via in ('inputs', 'outputs'):
            for di in (0, 1, 2):
                yield {'source': SOURCE, 'dest': dests[di], 'mode': 'both', 'rules': ['a', 'ab.x'], 'namespace': namespace, 'options': {}, 'via': via}


@st.composite
def _tree(draw, depth, counter):
    ports = {}
    for name in draw(st.lists(st.sampled_from(NAMES), min_size=1, max_size=4, unique=True)):
        if depth > 0 and draw(st.integers(0, 2)) > 0:
            ports[name] = draw(_tree(depth - 1, counter))
        else:
            counter[0] += 1
            ports[name] = _p(draw(st.integers(0, 11)))
    tree = pm.ns(
        ports,
        required=draw(st.booleans()),
        dynamic=draw(st.booleans()),
        valid_type=draw(st.sampled_from([None, None, 'int', 'str'])),
        validator=draw(st.sampled_from([None, None, 'small', 'has_a'])),
        populate_defaults=draw(st.booleans()),
    )
    tree['help'] = draw(st.sampled_from([None, 'h']))
    return tree


def _all_paths(tree, prefix=''):
    for name, sub in tree['ports'].items():
        yield prefix + name
        if sub['kind'] == 'ns':
            yield from _all_paths(sub, prefix + name + '.')


@st.composite
def _cases(draw, tier):
    source = draw(_tree(2, [0]))
    paths = list(_all_paths(source))
    mode = draw(st.sampled_from(['include', 'include', 'exclude', 'exclude', 'none', 'both']))
    rules = []
    if mode != 'none':
        pool = paths + [p + 'x' for p in paths[:2]] + ['zz']
        rules = draw(st.lists(st.sampled_from(pool), min_size=1, max_size=3, unique=True))
        kept = []
        for rule in rules:
            if _no_ancestors(kept + [rule]):
                kept.append(rule)
        rules = kept
    dest_ports = {}
    for name in draw(st.lists(st.sampled_from(['keep', 'k2', 'a', 'ab', 't']), max_size=3, unique=True)):
        dest_ports[name] = pm.ns({'own': _p(1)}) if name == 't' and draw(st.booleans()) else _p(draw(st.integers(0, 11)))
    dest = pm.ns(dest_ports, required=draw(st.booleans()), dynamic=draw(st.booleans()))
    options = {}
    for key, values in (('required', [True, False]), ('dynamic', [True, False]), ('help', ['o', None]), ('populate_defaults', [True, False]), ('valid_type', [None, 'int']), ('bogus', [1])):
        if draw(st.integers(0, 5)) == 0:
            options[key] = draw(st.sampled_from(values))
    return {
        'source': source,
        'dest': dest,
        'mode': mode,
        'rules': rules,
        'namespace': draw(st.sampled_from([None, None, 't', 't.u', 'keep', ''])),
        'positional': draw(st.integers(0, 3)) == 0,
        'omit_none': draw(st.integers(0, 3)) == 0,
        'options': options,
        'via': draw(st.sampled_from(['inputs', 'inputs', 'outputs', 'absorb'])),
        'sep': draw(st.sampled_from([None, None, None, '__', '/'])),
    }


def strategy(tier):
    return _cases(tier)


# ---------------------------------------------------------------------------------------------
def _strip_defaults(tree):
    """Output ports have no defaults."""
    tree = copy.deepcopy(tree)
    for name, sub in tree['ports'].items():
        if sub['kind'] == 'ns':
            tree['ports'][name] = _strip_defaults(sub)
        else:
            sub.pop('default', None)
            sub['io'] = 'output'
    return tree


def _make_process(name, tree, which, expose_from=None, expose_kwargs=None, sep=None, own_ns_class=False, then=None):
    def define(cls, spec):
        super(klass, cls).define(spec)
        pm.build_namespace(spec, 'input' if which == 'inputs' else 'output', tree)
        if sep:
            # state that only the namespace subclass knows about (like aiida's `non_db`): it travels with the namespace
            for path, port in _walk(getattr(spec, which)):
                if isinstance(port, real.PortNamespace):
                    port.pv_tag = 'tag:' + name + ':' + path
        if expose_from is not None and isinstance(expose_kwargs, tuple):
            getattr(spec, 'expose_' + which)(expose_from, *expose_kwargs[1])  # the arguments in their documented order
        elif expose_from is not None:
            getattr(spec, 'expose_' + which)(expose_from, **expose_kwargs)
        if then is not None:
            getattr(spec, 'expose_' + which)(then[0], **then[1])

    body = {'define': classmethod(define)}
    if sep:
        body['_spec_class'] = pm.spec_class_for(sep)
    elif own_ns_class:
        # a spec class with its own namespace class (same separator), while the source uses the stock one
        body['_spec_class'] = pm.spec_class_for('.')
    klass = type(name, (Process,), body)
    return klass


def _real_options(options):
    out = dict(options)
    if 'valid_type' in out:
        out['valid_type'] = pm.TYPES[out['valid_type']]
    return out


def execute(case):
    viol = []

    def v(clause, detail):
        viol.append({'clause': clause, 'detail': detail})

    via = case['via']
    io = 'output' if via == 'outputs' else 'input'
    source, dest = case['source'], case['dest']
    if io == 'output':
        source, dest = _strip_defaults(source), _strip_defaults(dest)
    rename = case.get('rename_source')  # [old, new]: a top-level source port that was re-filed under another key
    if rename:
        source = copy.deepcopy(source)
        source['ports'][rename[1]] = source['ports'].pop(rename[0])
    include = case['rules'] if case['mode'] in ('include', 'both', 'include+empty') else None
    exclude = case['rules'] if case['mode'] in ('exclude', 'both', 'exclude+empty') else None
    if case['mode'] == 'include+empty':
        exclude = []  # both given, one of them empty: still both given
    elif case['mode'] == 'exclude+empty':
        include = []
    namespace = case['namespace']
    options = case['options']

    then = case.get('then')  # a second expose of the same source, into a namespace below the first one
    try:
        tree1 = em.expose(dest, source, namespace or None, include, exclude, options)  # ('' is "no namespace" too)
        if then:
            tree1 = em.expose(tree1, source, then['namespace'], None, None, {})
        expected = em.describe_model(tree1)
        exp_error = None
    except ValueError as exc:
        expected, exp_error = None, exc

    sep = case.get('sep')

    def real_path(path):
        return path.replace('.', sep) if sep and path is not None else path

    def real_rules(rules):
        return None if rules is None else [real_path(r) for r in rules]

    kwargs = {'namespace': real_path(namespace), 'include': real_rules(include), 'exclude': real_rules(exclude), 'namespace_options': _real_options(options)}
    if case.get('omit_none') and not case.get('positional'):
        # what is not wanted is left out instead of being passed as None (the declared defaults are used)
        kwargs = {key: val for key, val in kwargs.items() if val is not None and not (key == 'namespace_options' and not val)}
    got_error = None
    src_ns = dst_ns = None
    try:
        if via == 'absorb':
            holder_s = _make_process('Src', case['source'], 'inputs', sep=sep)
            holder_d = _make_process('Dst', dest, 'inputs', sep=sep)
            src_ns = holder_s.spec().inputs
            dst_ns = holder_d.spec().inputs
            if rename:
                src_ns[rename[1]] = src_ns.pop(rename[0])
            target = dst_ns.create_port_namespace(real_path(namespace)) if namespace else dst_ns
            if case.get('positional'):
                target.absorb(src_ns, real_rules(exclude), real_rules(include), _real_options(options))
            else:
                target.absorb(src_ns, exclude=real_rules(exclude), include=real_rules(include), namespace_options=_real_options(options))
        else:
            src_cls = _make_process('Src', case['source'], via, sep=sep)
            if case.get('positional'):
                kwargs = ('positional', [kwargs['namespace'], kwargs['exclude'], kwargs['include'], kwargs['namespace_options']])
            dst_cls = _make_process('Dst', dest, via, expose_from=src_cls, expose_kwargs=kwargs, sep=sep, own_ns_class=bool(case.get('dest_class')), then=(src_cls, {'namespace': then['namespace']}) if then else None)
            src_ns = getattr(src_cls.spec(), via)
            if rename:
                src_ns[rename[1]] = src_ns.pop(rename[0])
            dst_ns = getattr(dst_cls.spec(), via)
    except Exception as exc:  # noqa: BLE001
        got_error = exc

    if exp_error is not None and via != 'absorb' and case['mode'] in ('both', 'include+empty', 'exclude+empty') and not case.get('omit_none'):
        # a refused call leaves the destination as it was: tried on a spec object that can be looked at afterwards
        from plumpy import ProcessSpec

        try:
            spec_cls = pm.spec_class_for(sep) if sep else ProcessSpec
            spec_obj = spec_cls()
            pm.build_namespace(spec_obj, io, dest)
            before = em.describe_real(getattr(spec_obj, via), io)
            try:
                src2 = _make_process('Src2', case['source'], via, sep=sep)
                if isinstance(kwargs, tuple):
                    getattr(spec_obj, 'expose_' + via)(src2, *kwargs[1])
                else:
                    getattr(spec_obj, 'expose_' + via)(src2, **kwargs)
                v('invalid-expose-accepted', f'{exp_error} - but the call on a spec object succeeded')
            except ValueError:
                after = em.describe_real(getattr(spec_obj, via), io)
                diff = _diff(before, after)
                if diff:
                    v('refused-expose-changed-destination', f'include together with exclude was rejected, but the destination changed: {diff}')
        except Exception as exc:  # noqa: BLE001
            v('refused-expose-error-type', f'{type(exc).__name__}: {str(exc)[:160]}')
    if exp_error is not None:
        if got_error is None:
            v('invalid-expose-accepted', f'{exp_error} - but the call succeeded')
        elif case['mode'] in ('both', 'include+empty', 'exclude+empty') and not isinstance(got_error, ValueError):
            v('include-and-exclude-error-type', f'raised {type(got_error).__name__}, expected ValueError')
    elif got_error is not None:
        v('valid-expose-raised', f'{type(got_error).__name__}: {str(got_error)[:200]}')
    else:
        got = em.describe_real(dst_ns, io)
        diff = _diff(expected, got)
        if diff:
            v('destination-tree', diff)
        else:
            if sep:
                _subclass_state(src_ns, dst_ns, namespace, v)
            if not viol:
                _independence(case, src_ns, dst_ns, io, namespace, v)

    prefix_sibling = False
    for rule in case['rules']:
        if '.' in rule:
            head = rule.split('.')[0]
            if any(n != head and (n.startswith(head) or head.startswith(n)) for n in source['ports']):
                prefix_sibling = True
    classes = ['mode:' + case['mode'], 'via:' + via, 'ns:' + str(namespace), 'error' if exp_error else 'ok']
    if options:
        classes.append('options')
    if sep:
        classes.append('custom-separator')
    if prefix_sibling:
        classes.append('nested-rule-with-prefix-sibling')
    return {
        'violations': viol,
        'nontrivial': prefix_sibling,
        'classes': classes,
        'history': {'mode': case['mode'], 'rules': case['rules'], 'namespace': namespace, 'options': options, 'selected': sorted(_flat(expected)) if expected else None},
    }


def _flat(desc, prefix=''):
    out = []
    for name, sub in desc.get('ports', {}).items():
        out.append(prefix + name)
        if sub['kind'] == 'ns':
            out.extend(_flat(sub, prefix + name + '.'))
    return out


def _diff(a, b, path='<top>'):
    if a['kind'] != b['kind']:
        return f'{path}: kind {b["kind"]} expected {a["kind"]}'
    for key in a:
        if key == 'ports':
            continue
        if a[key] != b.get(key):
            return f'{path}: {key} = {b.get(key)!r} expected {a[key]!r}'
    if a['kind'] == 'ns':
        extra = sorted(set(b['ports']) - set(a['ports']))
        missing = sorted(set(a['ports']) - set(b['ports']))
        if extra or missing:
            return f'{path}: unexpected ports {extra}, missing ports {missing}'
        for name in a['ports']:
            sub = _diff(a['ports'][name], b['ports'][name], f'{path}.{name}' if path != '<top>' else name)
            if sub:
                return sub
    return None


def _walk(ns_real, prefix=''):
    for name, sub in list(ns_real.items()):
        yield prefix + name, sub
        if isinstance(sub, real.PortNamespace):
            yield from _walk(sub, prefix + name + '.')


def _subclass_state(src_ns, dst_ns, namespace, v):
    """Exposed nested namespaces keep the class of the source namespace and what that class added to it."""
    target = dst_ns
    if namespace:
        for part in namespace.split('.'):
            target = target[part]
    source = dict(_walk(src_ns))
    for path, port in _walk(target):
        src = source.get(path)
        if not isinstance(port, real.PortNamespace) or not isinstance(src, real.PortNamespace) or not hasattr(src, 'pv_tag'):
            continue
        if getattr(port, 'pv_tag', None) == 'tag:Dst:' + ((namespace + '.') if namespace else '') + path:
            continue  # a namespace the destination had declared itself
        if type(port) is not type(src):
            v('namespace-class-lost', f'exposed namespace {path} is a {type(port).__name__}, the source namespace is a {type(src).__name__}')
            return
        if getattr(port, 'pv_tag', None) != src.pv_tag:
            v('namespace-subclass-state-lost', f'exposed namespace {path}: attribute set by the namespace subclass is {getattr(port, "pv_tag", None)!r}, source has {src.pv_tag!r}')
            return


def _mutate(ns_real, io):
    """Change every settable attribute of every port, add a port to every namespace and drop one leaf."""
    for _path, port in list(_walk(ns_real)):
        port.required = not port.required
        port.help = 'mutated'
        port.valid_type = float
        port.validator = pm.v_never
        if isinstance(port, real.PortNamespace):
            port.populate_defaults = not port.populate_defaults
            port['added_later'] = real.InputPort('added_later') if io == 'input' else real.OutputPort('added_later')
        elif io == 'input':
            if port.has_default() and isinstance(port.default, list):
                port.default.append('mutated in place')
            elif port.has_default() and isinstance(port.default, dict):
                port.default.setdefault('k', []).append('mutated in place')
                port.default['new'] = 1
            else:
                port.default = 'mutated default'
    ns_real.required = not ns_real.required
    ns_real.help = 'mutated top'
    ns_real['added_top'] = real.InputPort('added_top') if io == 'input' else real.OutputPort('added_top')
    for name, port in list(ns_real.items()):
        if not isinstance(port, real.PortNamespace) and name != 'added_top':
            del ns_real[name]
            break


def _independence(case, src_ns, dst_ns, io, namespace, v):
    before_dst = em.describe_real(dst_ns, io)
    _mutate(src_ns, io)
    after_dst = em.describe_real(dst_ns, io)
    diff = _diff(before_dst, after_dst)
    if diff:
        v('source-change-shows-in-destination', diff)
        return
    before_src = em.describe_real(src_ns, io)
    target = dst_ns
    if namespace:
        for part in namespace.split('.'):
            target = target[part]
    _mutate(target, io)
    after_src = em.describe_real(src_ns, io)
    diff = _diff(before_src, after_src)
    if diff:
        v('destination-change-shows-in-source', diff)


def shrink_candidates(case):
    for i in range(len(case['rules'])):
        cand = copy.deepcopy(case)
        del cand['rules'][i]
        yield cand
    for key in list(case['options']):
        cand = copy.deepcopy(case)
        del cand['options'][key]
        yield cand
    for side in ('source', 'dest'):
        for name in list(case[side]['ports']):
            cand = copy.deepcopy(case)
            del cand[side]['ports'][name]
            yield cand
    if case['namespace']:
        cand = copy.deepcopy(case)
        cand['namespace'] = None
        yield cand


SIGNATURES = {}
