"""C01 -- state changes follow the lifecycle graph; terminal states are final."""

from hypothesis import strategies as st

from .. import gen
from ..exec import Exec
from ..programs import NOVALUE, control

ID = 'C01'
LEVEL = 'exploration'
RULE = (
    'cases = (program with sync/async steps, outputs, waits, continuations, failures, call_soon callbacks; schedule of '
    '<=K pause/play/kill/resume/fail requests at any tick boundary, followed by a post-mortem burst of every control '
    'call and all late callbacks); non-trivial = >=1 request delivered while a step or wait was in flight, or >=1 control '
    'call / late callback delivered after termination; distinct = SHA-1 of the case JSON'
)
ASSUMPTIONS = [
    'lifecycle hooks do not raise (quantifier of C01; C03 covers raising hooks); they may issue control calls themselves',
    'transitions are observed through ENTERED_STATE callbacks while the process is open and through state sampling after every loop callback afterwards',
]
BUDGET = {
    'quick': {'enum': ['k1', 'k2', 'hooks', 'wc', 'tasks', 'observers', 'closed', 'extsoon', 'listener', 'lsave', 'lateapi'], 'hyp': 4000, 'shards': 8},
    'thorough': {'enum': ['k1', 'k2', 'k3', 'k4w', 'hooks', 'wc', 'tasks', 'observers', 'closed', 'extsoon', 'listener', 'lsave', 'lateapi'], 'hyp': 160000, 'shards': 16},
}

ALPHABET = [['pause', 'p'], ['play'], ['kill', 'kt'], ['resume', 1], ['fail', '']]  # (an exception with an empty message is an exception)
GRAPH = {
    'created': {'running', 'killed', 'excepted'},
    'running': {'running', 'waiting', 'finished', 'killed', 'excepted'},
    'waiting': {'running', 'waiting', 'finished', 'killed', 'excepted'},
    'finished': set(),
    'excepted': set(),
    'killed': set(),
}
TERMINAL = ('finished', 'excepted', 'killed')
LATE = {
    'steps': [
        gen.S([['soon', 'raise', 'late1']], ['value', 1]),
    ]
}
LATE2 = {'steps': [gen.S([['yield'], ['soon', 'ok', 'c'], ['soon', 'raise', 'late2']], ['kill', 'bye'], True)]}
LATE3 = {'steps': [gen.S([['soon', 'raise', 'l3']], ['wait', 1, None, None]), gen.S([['soon', 'raise', 'l4']], ['raise', 'e'])]}


def enumerate_cases(tier, scope):
    if scope == 'tasks':
        # the caller cancels the task that steps the process (a timeout) and may step it again later
        alpha = [['pause', 'p'], ['play'], ['kill', 'kt'], ['fail', 'f'], ['cancel_task'], ['restep']]
        for name in ('async2', 'wait1', 'chain', 'gated'):
            for k in (2, 3):
                for sched in gen.schedules(alpha, k, 2):
                    if not any(ev[0] == 'cancel_task' for ev in sched):
                        continue
                    for raising in (None, 1):
                        yield {'program': gen.CATALOGUE[name], 'schedule': sched, 'cleanup_raises': raising, 'tag': f'tasks:{name}'}
        return
    if scope == 'extsoon':
        # callbacks scheduled by whoever holds the process, raising or not, also before the first step and while paused
        alpha = [['ext_soon', 'raise', 'x'], ['ext_soon', 'ok', 'y'], ['pause', 'p'], ['play'], ['kill', 'kt']]
        for name in ('async2', 'wait1', 'chain'):
            for k in (1, 2):
                for sched in gen.schedules(alpha, k, 2):
                    if not any(ev[0] == 'ext_soon' for ev in sched):
                        continue
                    yield {'program': gen.CATALOGUE[name], 'schedule': sched, 'tag': f'extsoon:{name}'}
        return
    if scope == 'closed':
        # close() on a live process (it drops the hooks and callbacks): control calls afterwards still move the bare state
        # machine, and only along the graph
        for name in ('async2', 'wait1', 'chain', 'gated', 'waitwait'):
            for gap in (0, 1, 2, 3):
                for k in (1, 2):
                    for sched in gen.schedules(ALPHABET, k, 1):
                        yield {'program': gen.CATALOGUE[name], 'schedule': [['tick', gap], ['close']] + sched, 'tag': f'closed:{name}'}
        return
    if scope == 'observers':
        # one-shot observers: a state-event callback that unregisters itself while it is being called
        for name in ('async2', 'wait1', 'chain', 'failing', 'selfkill', 'sync3'):
            for hook in ('entered', 'entering', 'exiting'):
                for occ in (1, 2, 3, 4):
                    for sched in ([], [['tick', 1], ['kill', 'k']], [['tick', 1], ['pause', 'p'], ['tick', 1], ['play']]):
                        yield {'program': gen.CATALOGUE[name], 'schedule': sched, 'observers': [{'hook': hook, 'occ': occ}], 'tag': f'observers:{name}'}
        return
    if scope == 'k4w':
        for name in ('wait1', 'waitwait', 'async2', 'late3'):
            prog = {'late3': LATE3}.get(name) or gen.CATALOGUE[name]
            for sched in gen.schedules(ALPHABET, 4, 1):
                yield {'program': prog, 'schedule': [['tick', 1]] + sched, 'tag': f'k4w:{name}'}
        return
    if scope == 'wc':
        for name in gen.WC_CATALOGUE:
            for k in (1, 2):
                for sched in gen.schedules([a for a in ALPHABET if a[0] != 'resume'] + gen.WC_EVENTS, k, 3):
                    yield dict(gen.base(name), schedule=sched, tag=f'wc:{name}')
            # the same requests on a chain recreated from a checkpoint (possible where no live awaitable is pending)
            for sched in gen.schedules([a for a in ALPHABET if a[0] != 'resume'], 1, 2):
                yield dict(gen.base(name), schedule=[['reload']] + sched, tag=f'wc-reload:{name}')
                yield dict(gen.base(name), schedule=[['pause', 'p'], ['tick', 1], ['reload']] + sched, tag=f'wc-reload:{name}')
        return
    if scope == 'listener':
        # listeners that act from inside the notification about the end of the process (or an earlier one): they take
        # themselves off the process, put another listener on it, close it, or ask for a kill / pause / play
        for name in ('wait1', 'chain', 'async2', 'selfkill', 'failing'):
            for on in ('on_process_finished', 'on_process_killed', 'on_process_excepted', 'on_process_running', 'on_process_waiting', 'on_process_paused'):
                for do in (['unsubscribe'], ['subscribe'], ['close', None], ['kill', 'lk'], ['pause', 'lp'], ['play', None], ['raise_cancelled']):
                    if do[0] == 'raise_cancelled' and not on.endswith(('finished', 'killed', 'excepted')):
                        continue  # (a cancellation that surfaces in the notification about the end: the end stays the end)
                    if do[0] == 'close' and on in ('on_process_running', 'on_process_waiting', 'on_process_paused'):
                        continue  # (closing a live process takes the observers off it: scope `closed`)
                    for sched in ([], [['tick', 1], ['kill', 'k']], [['tick', 2], ['pause', 'p']], [['tick', 1], ['fail', 'f']]):
                        yield {'program': gen.CATALOGUE[name], 'schedule': sched, 'listener': [{'on': on, 'occ': 1, 'do': do}]}
        return
    if scope == 'lateapi':
        # hooks that run when the terminal state has been entered (and before the process is closed) use the process:
        # they emit a last output, register a clean-up, take the listener off - none of which raises there
        for name in ('wait1', 'chain', 'async2', 'selfkill', 'failing'):
            for hook in ('on_finished', 'on_killed', 'on_excepted', 'on_terminated', 'on_finish', 'on_kill', 'on_except'):
                for pos in ('pre', 'post'):
                    for do in (['out', ['late', 1]], ['add_cleanup', None], ['unlisten', None], ['remove_observer', None]):
                        if hook == 'on_terminated' and pos == 'post' and do[0] not in ('unlisten', 'remove_observer'):
                            continue  # (super().on_terminated() closes the process: using it afterwards is refused, rightly)
                        for sched in ([], [['tick', 1], ['kill', 'k']], [['tick', 1], ['fail', 'f']]):
                            yield {'program': gen.CATALOGUE[name], 'schedule': sched, 'hooks': [{'hook': hook, 'occ': 1, 'pos': pos, 'do': do}]}
                            if do[0] == 'unlisten':
                                # ... after the (one-shot) listener already took itself off when it was told about the end
                                for on in ('on_process_finished', 'on_process_killed', 'on_process_excepted'):
                                    yield {'program': gen.CATALOGUE[name], 'schedule': sched, 'hooks': [{'hook': hook, 'occ': 1, 'pos': pos, 'do': do}], 'listener': [{'on': on, 'occ': 1, 'do': ['unsubscribe']}]}
        return
    if scope == 'lsave':
        # a listener checkpoints the process from inside its notifications; the process may end with an exception that
        # cannot be serialised, so that the checkpoint of the terminal state fails (in the listener)
        unsavable = {'steps': [gen.S([['yield'], ['out', 'x', 1]], ['wait', 1, None, None], True), gen.S([], ['raise', {'__lock__': 1}])]}
        # ... or with an output that cannot be serialised (then it is the outcome future that cannot be saved)
        unsavable_out = {'steps': [gen.S([['yield'], ['out', 'x', {'__lock__': 1}]], ['wait', 1, None, None], True), gen.S([['yield']], ['value', 3], True)]}
        for prog in (unsavable, unsavable_out, gen.CATALOGUE['wait1'], gen.CATALOGUE['failing'], gen.CATALOGUE['selfkill'], gen.CATALOGUE['chain']):
            for on in ('on_process_finished', 'on_process_killed', 'on_process_excepted', 'on_process_running', 'on_process_waiting', 'on_process_paused'):
                for occ in (1, 2):
                    for sched in ([], [['tick', 1], ['kill', 'k']], [['tick', 2], ['pause', 'p']], [['tick', 1], ['fail', 'f']], [['tick', 2], ['resume', 1]]):
                        yield {'program': prog, 'schedule': sched, 'listener': [{'on': on, 'occ': occ, 'do': ['checkpoint']}]}
        return
    if scope == 'hooks':
        for name in ('wait1', 'chain', 'async2', 'selfkill', 'failing', 'sync3'):
            for hook in gen.HOOK_SITES:
                for occ in (1, 2):
                    for pos in ('pre', 'post'):
                        for do in (['kill', 'hk'], ['pause', 'hp'], ['fail', 'hf'], ['play', None]):
                            if do[0] == 'fail' and hook not in gen.FAIL_HOOK_SITES:
                                continue
                            for sched in ([], [['tick', 1], ['pause', 'p']], [['tick', 2], ['kill', 'k']]):
                                yield {'program': gen.CATALOGUE[name], 'schedule': sched, 'hooks': [{'hook': hook, 'occ': occ, 'pos': pos, 'do': do}]}
                            if do[0] in ('kill', 'fail') and occ == 1 and name in ('wait1', 'async2'):
                                # requests carried out directly (the process is not stepping: not started yet, or paused):
                                # a hook of that very transition asks for another one, which the library refuses
                                for sched in ([['kill', 'k0']], [['pause', 'p'], ['tick', 2], ['kill', 'k']], [['tick', 1], ['pause', 'p'], ['tick', 2], ['kill', 'k']], [['fail', 'f0']]):
                                    yield {'program': gen.CATALOGUE[name], 'schedule': sched, 'hooks': [{'hook': hook, 'occ': occ, 'pos': pos, 'do': do}]}
        return
    k = int(scope[1])
    max_gap = {1: 8, 2: 5, 3: 3}[k]
    progs = {name: gen.CATALOGUE[name] for name in ('async2', 'wait1', 'chain', 'waitwait', 'failing', 'selfkill')}
    progs.update({'late': LATE, 'late2': LATE2, 'late3': LATE3})
    for name, prog in progs.items():
        for sched in gen.schedules(ALPHABET, k, max_gap):
            yield {'program': prog, 'schedule': sched, 'tag': f'{scope}:{name}'}


@st.composite
def _cases(draw, tier):
    prog = draw(gen.programs(max_steps=4 if tier == 'quick' else 6, self_calls=(), soon=True))
    sched = draw(gen.control_schedules(['pause', 'play', 'kill', 'resume', 'fail', 'open', 'cancel_task', 'restep', 'close', 'ext_soon'], max_events=5, max_gap=4))
    case = {'program': prog, 'schedule': sched}
    if draw(st.integers(0, 2)) == 0:
        case['hooks'] = draw(gen.hook_plans(['kill', 'pause', 'play', 'fail']))
    elif draw(st.integers(0, 2)) == 0:
        case['listener'] = [{'on': draw(st.sampled_from(['on_process_finished', 'on_process_killed', 'on_process_excepted', 'on_process_running', 'on_process_waiting', 'on_process_paused', 'on_process_played'])), 'occ': draw(st.integers(1, 2)), 'do': draw(st.sampled_from([['unsubscribe'], ['subscribe'], ['kill', 'lk'], ['pause', 'lp'], ['play', None]]))}]
    if draw(st.integers(0, 2)) == 0:
        case['cleanup_raises'] = draw(st.integers(0, 2))
    if draw(st.integers(0, 3)) == 0:
        case['observers'] = draw(st.lists(st.fixed_dictionaries({'hook': st.sampled_from(['entered', 'entering', 'exiting']), 'occ': st.integers(1, 5)}), min_size=1, max_size=2))
    return case


def strategy(tier):
    return _cases(tier)


def execute(case):
    viol = []
    classes = []

    def v(clause, detail):
        viol.append({'clause': clause, 'detail': detail})

    with Exec(case) as ex:
        ex.start()
        first_state = ex.samples[0][1]
        ex.run_schedule()
        ex.event(['restep'])
        ex.settle(play=True, resumes=None if 'outline' in case else [1, 2, 3, 4, 5, 6], open_gates=True)
        n_before_pm = len(ex.samples)
        terminated_before_pm = ex.proc.has_terminated()
        # post-mortem burst: every control call once more, all pending callbacks drained
        for ev in (['pause', 'pm'], ['play'], ['kill', 'pm'], ['resume', NOVALUE], ['fail', 'pm'], ['play']):
            ex.event(ev, who='postmortem')
            ex.drain()
        ex.settle(play=True, resumes=[], open_gates=True)

        if first_state != 'created':
            v('initial-state', f'first observed state is {first_state}')
        # every announced transition is an edge of the graph, and they chain
        prev_to = 'created'
        # (a cancellation raised by a listener from the notification about the end passes through the library before the
        # state-event callbacks are called: the announcements are incomplete then, the sampled states are judged)
        announced_all = not any(plan['do'][0] == 'raise_cancelled' for plan in case.get('listener', ()))
        for frm, to, _idx in ex.transitions if announced_all else ():
            if frm != prev_to:
                v('transition-chain', f'transition {frm}->{to} announced but previous state was {prev_to}')
            if to not in GRAPH.get(frm, set()):
                v('illegal-transition', f'{frm}->{to}')
            prev_to = to
        # the sampled state always is the state that was announced last: a change that bypasses the announcement
        # (e.g. after close(), when the callbacks are gone) is a change of a terminal state within one loop callback
        for i, smp in enumerate(ex.samples if announced_all else ()):
            announced = 'created'
            for _frm, to, idx in ex.transitions:
                if idx <= i:
                    announced = to
            if smp[1] != announced:
                v('state-not-announced', f'sample {i} ({smp[0]}): state is {smp[1]} but the last announced transition entered {announced}')
                break
        # sampled states: reachable along the graph; terminal is final
        terminal_seen = None
        was_terminated = False
        last = None
        for i, smp in enumerate(ex.samples):
            why, state, _paused, _status, _killing, terminated, _fd, _td = smp[:8]
            if last is not None and state != last and not _reachable(last, state):
                v('illegal-sampled-change', f'state went {last} -> {state} at sample {i} ({why})')
            if terminal_seen is not None and state != terminal_seen:
                v('terminal-not-final', f'state {terminal_seen} changed to {state} after {why} (sample {i})')
                terminal_seen = state if state in TERMINAL else terminal_seen
            if was_terminated and not terminated:
                v('terminated-reverted', f'has_terminated() went back to False at sample {i}')
            if terminated != (state in TERMINAL):
                v('terminated-flag', f'has_terminated()={terminated} in state {state}')
            if state in TERMINAL and terminal_seen is None:
                terminal_seen = state
            was_terminated = was_terminated or terminated
            last = state
        # a terminal state that a listener was told about (and saw) is the state the process keeps
        for pid_, note, seen in ex.world.extra.get('noted_states', ()):
            if pid_ == ex.proc.pid and seen in TERMINAL and ex.samples and ex.samples[-1][1] != seen:
                v('terminal-not-final', f'a listener saw the process {seen} in {note}, but it ended up {ex.samples[-1][1]}')
                break
        # the outcome of a terminated process (exception object, kill text, result) never changes either
        first_sig = None
        for i, smp in enumerate(ex.samples):
            sig = smp[8]
            if sig is None:
                continue
            if first_sig is None:
                first_sig = sig
            elif sig != first_sig:
                v('terminal-outcome-changed', f'sample {i} ({smp[0]}): outcome {sig[:2]} was {first_sig[:2]}')
                break
        # a copy loaded from a checkpoint of the terminated process is just as final
        if ex.proc.has_terminated() and not viol:
            from plumpy import persistence

            try:
                with ex.loop.as_running():
                    loaded = persistence.Bundle(ex.proc).unbundle(persistence.LoadSaveContext(loop=ex.loop))
                before = (loaded.state.value, ex.samples[-1][8][:2])
                from ..exec import outcome_signature

                sig0 = outcome_signature(loaded)
                for what, arg in (('pause', 'pm'), ('play', None), ('kill', 'pm'), ('fail', 'pm'), ('play', None)):
                    with ex.loop.as_running():
                        control(loaded, what, arg, who='postmortem-loaded')
                    ex.loop.drain(200)
                    if loaded.state.value != before[0] or outcome_signature(loaded) != sig0:
                        v('loaded-terminal-not-final', f'{what} on a process loaded from its terminal checkpoint changed {before[0]} / {sig0[:2]} to {loaded.state.value} / {outcome_signature(loaded)[:2]}')
                        break
            except Exception as exc:  # noqa: BLE001 - saving/loading is C07's business
                classes.append('loaded-copy-unavailable:' + type(exc).__name__)
        if not ex.proc.has_terminated():
            # the post-mortem burst contains kill and fail: a live process here is someone else's property (C04),
            # C01 only notes it
            classes.append('still-live')

        recs = ex.world.futs
        inflight = [r for r in recs if (r['who'] == 'ext' and r.get('phase') in ('in_step', 'waiting')) or r['who'].startswith('hook:')]
        if any(r['who'].startswith('hook:') for r in recs):
            classes.append('request-from-hook')
        if ex.close_live_at is not None:
            classes.append('closed-while-live')
        if ex.world.extra.get('oneshot_removed'):
            classes.append('observer-removed-itself')
        post = [r for r in recs if not r['live_before']]
        late_cbs = [e for e in ex.world.trace.get(ex.proc.pid, []) if e['k'] == 'cb' and e['state'] in TERMINAL]
        if inflight:
            classes.append('request-in-flight')
        if post and terminated_before_pm:
            classes.append('post-termination-call')
        if late_cbs:
            classes.append('late-callback')
        if any(e['ev'][0] == 'fail' for e in ex.events[: len(case.get('schedule', []))]):
            classes.append('has-fail')
        nontrivial = bool(inflight or late_cbs or (post and terminated_before_pm))
        classes.append('final:' + ex.state)
        _ = n_before_pm
        history = ex.history()
        history['sampled_states'] = _dedupe([s[1] for s in ex.samples])
    return {'violations': viol, 'nontrivial': nontrivial, 'classes': classes, 'history': history}


def _reachable(a, b):
    seen = {a}
    frontier = [a]
    while frontier:
        cur = frontier.pop()
        for nxt in GRAPH[cur]:
            if nxt not in seen:
                seen.add(nxt)
                frontier.append(nxt)
    # one or more edges (a tick may contain several transitions)
    return b in seen and (b != a or a in GRAPH[a])


def _dedupe(seq):
    out = []
    for item in seq:
        if not out or out[-1] != item:
            out.append(item)
    return out


from .c04 import shrink_candidates  # noqa: E402,F401

SIGNATURES = {}
