"""C14 -- persisters are a snapshot store keyed by (pid, tag), equivalent to each other."""

import asyncio
import copy
import shutil
import tempfile
import uuid

from hypothesis import strategies as st
from plumpy import persistence

from .. import gen, world
from ..programs import make_class
from ..steploop import StepLoop
from .c07 import same

ID = 'C14'
LEVEL = 'exploration'
RULE = (
    'cases = histories of <=40 operations save / load / list-all / list-pid / delete / delete-pid / poison / heal (make a process '
    'unserialisable, so that its saves are refused, and serialisable again) / progress (advance a '
    'live process one step: new outputs, context mutation) / run-loaded (unbundle a loaded checkpoint, run it to '
    'completion, load again) over 3 live processes + 1 never-saved pid and tags {None, a, b}; pids are ints, UUIDs or '
    'separator-free strings (one kind per history); both persisters receive every operation; the oracle is a dict model '
    'holding the harness-made deep copy taken at save time; non-trivial = the history contains an overwrite, a delete of '
    'an absent key, or progress / run-loaded between a save and a load of the same key; distinct = SHA-1 of the case JSON'
)
ASSUMPTIONS = [
    'ids and tags are ints, UUIDs or separator-free strings of one kind per history (quantifier of C14)',
    'the pickle persister works in a private temporary directory (optionally a sub-directory whose name contains glob metacharacters) that is removed after the case',
    'a save_checkpoint call that raises is not a save: the model keeps the previous snapshot of that key',
]
BUDGET = {
    'quick': {'enum': ['pairs'], 'hyp': 1200, 'shards': 8},
    'thorough': {'enum': ['pairs'], 'hyp': 40000, 'shards': 16},
}
S = gen.S
# every step mutates ctx (rebinding and in-place), emits outputs and waits: one "progress" = one step
PROG = {
    'steps': [
        S([['ctxinc', 'n'], ['ctxappend', 'log', 'a'], ['out', 'o.first', 1]], ['wait', 1, 'w1', {'d': [1]}]),
        S([['ctxinc', 'n'], ['ctxappend', 'log', 'b'], ['out', 'o.second', 2]], ['wait', 2, 'w2', None]),
        S([['ctxinc', 'n'], ['ctxappend', 'log', 'c'], ['out', 'third', [3]]], ['wait', 3, None, None]),
        S([['ctxinc', 'n'], ['ctxappend', 'log', 'd']], ['value', 'done']),
    ]
}
TAGS = [None, 'a', 'b']
# the pickle persister's directory is the caller's choice: names with glob/regex metacharacters are directories too
# (... and a directory that does not exist yet - with or without its parents - is created by the persister)
DIRNAMES = ['store', 'run[1]', 'a*b?', '[ab]', 'x.pickle', 'auto:fresh', 'auto:fresh/two/levels']
TAG_SETS = {'str': [None, 'a', 'b'], 'int': [None, 0, 1], 'strempty': [None, '', 'b'], 'strodd': [None, 'step 1', 'step_1'], 'strjoin': [None, 'x', '1_x', '1-x']}
PID_SETS = {
    'int': [11, 22, 33, 44],
    'str': ['p1', 'p2', 'p1x', 'zz'],
    'uuid': [uuid.UUID(int=i) for i in (1, 2, 3, 4)],
    # separator-free strings that differ only in characters a file name sanitiser would fold together
    'strodd': ['job 1', 'job_1', 'job#1', 'job:1'],
    # integers whose decimal forms are prefixes of one another
    'intprefix': [1, 12, 100, 2],
    # identifiers that are falsy: they are identifiers all the same
    'intzero': [0, 1, 10, 2],
    'strempty': ['', 'a', 'ab', 'b'],
    # the pid that was never saved is too long for a file name: asking for it, or deleting it, is still just a miss
    'strlong': ['p1', 'p2', 'p3', 'x' * 300],
    # separator-free strings which, joined with the tags of 'strjoin' by '_' or '-', spell the same text for different keys
    'strjoin': ['job', 'job_1', 'job-1', 'job_1_x'],
}


def enumerate_cases(tier, scope):
    """All pairs of operations after a fixed prefix, for every pid kind."""
    base_ops = [['save', 0, None], ['save', 1, 'a'], ['progress', 0]]
    alphabet = [
        ['save', 0, None], ['save', 0, 'a'], ['load', 0, None], ['load', 1, 'a'], ['load', 2, None], ['load', 0, 'b'],
        ['list_all'], ['list_pid', 0], ['list_pid', 3], ['delete', 0, None], ['delete', 3, 'a'], ['delete', 0, 'b'],
        ['delete_pid', 0], ['delete_pid', 3], ['progress', 0], ['run_loaded', 0, None], ['run_loaded', 1, 'a'],
    ]
    alphabet.append(['save_purging', 0, 'b'])
    for kind in PID_SETS:
        for a in alphabet:
            for b in alphabet:
                yield {'pid_kind': kind, 'ops': base_ops + [a, b, ['load', 0, None], ['load', 1, 'a'], ['list_all']]}
                if kind == 'int':
                    yield {'pid_kind': kind, 'two_handles': True, 'ops': base_ops + [a, ['list_all'], b, ['list_pid', 0], ['load', 0, None], ['delete_pid', 0], ['list_all']]}
    # a save that is refused (the process cannot be serialised right now) is not a save: the previous snapshot stays
    for kind in PID_SETS:
        for dirname in DIRNAMES:
            yield {'pid_kind': kind, 'dirname': dirname, 'memory_loader': dirname == 'store', 'ops': [
                ['save', 0, None], ['save', 1, 'a'], ['progress', 0], ['poison', 0], ['save', 0, None], ['save', 0, 'b'], ['load', 0, None], ['load', 0, 'b'],
                ['list_all'], ['list_pid', 0], ['heal', 0], ['save', 0, 'b'], ['load', 0, 'b'], ['delete_pid', 0], ['list_all'], ['load', 1, 'a']]}
    # ids and tags that only differ in non-word characters are different keys
    for seq in (
        [['save', 0, None], ['progress', 1], ['save', 1, None], ['save', 2, 'step 1'], ['progress', 2], ['save', 2, 'step_1'], ['load', 0, None], ['load', 1, None], ['load', 2, 'step 1'], ['load', 2, 'step_1'], ['list_all'], ['delete', 1, None], ['load', 0, None], ['list_pid', 0], ['delete_pid', 2], ['list_all']],
        [['save', 1, 'step_1'], ['load', 1, 'step 1'], ['load', 0, 'step_1'], ['delete', 1, 'step 1'], ['load', 1, 'step_1'], ['list_all']],
    ):
        yield {'pid_kind': 'strodd', 'tag_kind': 'strodd', 'ops': seq}
    # (id, tag) is a pair: keys whose id and tag spell the same text when joined by '_' or '-' are different keys
    for pa, ta, pb, tb in ((0, '1_x', 1, 'x'), (1, 'x', 0, '1_x'), (0, '1-x', 2, 'x'), (2, 'x', 0, '1-x')):
        yield {'pid_kind': 'strjoin', 'tag_kind': 'strjoin', 'ops': [
            ['save', pa, ta], ['progress', pb], ['save', pb, tb], ['load', pa, ta], ['load', pb, tb], ['list_all'], ['list_pid', pa], ['load', 3, None],
            ['delete', pb, tb], ['load', pa, ta], ['list_all'], ['save', pb, tb], ['delete_pid', pa], ['load', pb, tb], ['list_all']]}
    # falsy tags (0, '') are tags too: they must not collide with the untagged checkpoint
    for tag_kind, falsy in (('int', 0), ('strempty', '')):
        for kind in PID_SETS:
            for seq in (
                [['save', 0, None], ['progress', 0], ['save', 0, falsy], ['load', 0, None], ['load', 0, falsy], ['list_pid', 0]],
                [['save', 0, falsy], ['progress', 0], ['save', 0, None], ['load', 0, falsy], ['delete', 0, None], ['load', 0, falsy], ['list_all']],
                [['save', 0, falsy], ['delete', 0, falsy], ['load', 0, falsy], ['list_all'], ['save', 1, None], ['delete', 1, falsy], ['load', 1, None]],
            ):
                yield {'pid_kind': kind, 'tag_kind': tag_kind, 'ops': seq}


@st.composite
def _cases(draw, tier):
    n = draw(st.integers(1, 40))
    ops = []
    tag_kind = draw(st.sampled_from(['str', 'str', 'int', 'strempty', 'strodd', 'strjoin']))
    tags = TAG_SETS[tag_kind]
    for _ in range(n):
        kind = draw(st.sampled_from(['save', 'save', 'save', 'save', 'load', 'load', 'load', 'list_all', 'list_pid', 'delete', 'delete_pid', 'progress', 'progress', 'run_loaded', 'poison', 'heal']))
        p = draw(st.integers(0, 3))
        tag = draw(st.sampled_from(tags))
        if kind in ('save', 'progress', 'poison', 'heal'):
            p = draw(st.integers(0, 2))
            if kind == 'save' and draw(st.integers(0, 5)) == 0:
                kind = 'save_purging'
            ops.append([kind, p, tag] if kind in ('save', 'save_purging') else [kind, p])
        elif kind in ('load', 'delete', 'run_loaded'):
            ops.append([kind, p, tag])
        elif kind in ('list_pid', 'delete_pid'):
            ops.append([kind, p])
        else:
            ops.append([kind])
    case = {'pid_kind': draw(st.sampled_from(['int', 'int', 'str', 'uuid', 'strodd', 'intprefix', 'intzero', 'strempty', 'strlong', 'strjoin'])), 'tag_kind': tag_kind, 'ops': ops}
    if draw(st.integers(0, 2)) == 0:
        case['dirname'] = draw(st.sampled_from(DIRNAMES))
    case['two_handles'] = draw(st.booleans())
    case['memory_loader'] = draw(st.integers(0, 3)) == 0
    return case


def strategy(tier):
    return _cases(tier)


class Sys:
    """Three live processes on one loop."""

    def __init__(self, pids):
        self.loop = StepLoop()
        asyncio.set_event_loop(self.loop)
        self.world = world.reset(self.loop)
        cls = make_class(PROG)
        self.procs = []
        with self.loop.as_running():
            for pid in pids[:3]:
                proc = cls(pid=pid, loop=self.loop)
                self.procs.append(proc)
                self.loop.create_task(proc.step_until_terminated())
        self.loop.drain()

    def poison(self, idx, on):
        """A context member that cannot be serialised makes every save of this process fail until it is removed."""
        import threading

        proc = self.procs[idx]
        if on:
            proc.ctx.unsavable = threading.Lock()
        elif hasattr(proc.ctx, 'unsavable'):
            delattr(proc.ctx, 'unsavable')

    def progress(self, idx):
        proc = self.procs[idx]
        if proc.has_terminated():
            return
        with self.loop.as_running():
            if proc.state.value == 'waiting':
                proc.resume('go')
        self.loop.drain()

    def close(self):
        for task in asyncio.all_tasks(self.loop):
            task.cancel()
        self.loop.drain(500)
        for task in self.loop.all_tasks:
            task._log_destroy_pending = False
        self.loop.shutdown()
        asyncio.set_event_loop(None)
        world.reset(None)


def _run_loaded(bundle):
    """Unbundle in a fresh loop, run to completion, report the final ctx log."""
    loop = StepLoop()
    try:
        with loop.as_running():
            proc = bundle.unbundle(persistence.LoadSaveContext(loop=loop))
            task = loop.create_task(proc.step_until_terminated())
        for _ in range(10):
            loop.drain()
            if proc.has_terminated():
                break
            with loop.as_running():
                if proc.state.value == 'waiting':
                    proc.resume('go')
        result = (proc.state.value, list(proc.ctx.get('log', [])), proc.ctx.get('n'))
        if not task.done():
            task.cancel()
            loop.drain(200)
        return result
    finally:
        for task in loop.all_tasks:
            task._log_destroy_pending = False
        loop.shutdown()


def execute(case):
    viol = []

    def v(clause, detail):
        viol.append({'clause': clause, 'detail': detail})

    pids = PID_SETS[case['pid_kind']]
    import os

    tmpdir = tempfile.mkdtemp(prefix='pv14-')
    pickle_dir = tmpdir
    if case.get('dirname'):
        pickle_dir = os.path.join(tmpdir, case['dirname'].replace('auto:', ''))
        if not case['dirname'].startswith('auto:'):
            os.mkdir(pickle_dir)
        # a decoy next to it that a pattern interpretation of the name would match instead
        for decoy in ('run1', 'ab', 'a', 'b', 'axb?'):
            os.makedirs(os.path.join(tmpdir, decoy), exist_ok=True)
    system = Sys(pids)
    for want, proc in zip(pids, system.procs):
        if proc.pid != want or type(proc.pid) is not type(want):
            v('pid-not-kept', f'a process constructed with pid={want!r} reports pid {proc.pid!r}: its checkpoints cannot be found under the key it was given')
    poisoned = set()
    classes = set()
    model = {}
    touched_since_save = set()
    hist = []
    try:
        try:
            persisters = {'memory': persistence.InMemoryPersister(), 'pickle': persistence.PicklePersister(pickle_dir)}
        except Exception as exc:  # noqa: BLE001
            v('store-not-created', f'PicklePersister({case.get("dirname")!r}) raised {type(exc).__name__}: {exc}')
            return {'violations': viol, 'nontrivial': True, 'classes': ['store-not-created'], 'history': {'pid_kind': case['pid_kind'], 'ops': []}}
        # a second handle on the same pickle directory: the directory is the store, not the object
        second = persistence.PicklePersister(pickle_dir) if case.get('two_handles') else None
        for opno, op in enumerate(case['ops']):
            kind = op[0]
            where = f'op #{opno} {op}'
            if kind == 'progress':
                system.progress(op[1])
                for key in model:
                    if key[0] == pids[op[1]]:
                        touched_since_save.add(key)
                hist.append([op, None])
                continue
            if kind in ('poison', 'heal'):
                system.poison(op[1], kind == 'poison')
                (poisoned.add if kind == 'poison' else poisoned.discard)(op[1])
                hist.append([op, None])
                continue
            results = {}
            for name, pers in persisters.items():
                if name == 'pickle' and second is not None and (opno * 7 + len(case['ops'])) % 3 == 0:
                    pers = second
                    classes.add('second-handle-used')
                try:
                    if kind in ('save', 'save_purging'):
                        if kind == 'save_purging':
                            system.world.extra['purge_on_save'] = pers
                        try:
                            results[name] = ('ok', pers.save_checkpoint(system.procs[op[1]], op[2]))
                        finally:
                            system.world.extra.pop('purge_on_save', None)
                    elif kind in ('load', 'run_loaded'):
                        bundle = pers.load_checkpoint(pids[op[1]], op[2])
                        if kind == 'run_loaded':
                            outcome = _run_loaded(bundle)
                            asyncio.set_event_loop(system.loop)
                            bundle = ('ran', outcome, pers.load_checkpoint(pids[op[1]], op[2]))
                        results[name] = ('ok', bundle)
                    elif kind == 'list_all':
                        results[name] = ('ok', {(c.pid, c.tag) for c in pers.get_checkpoints()})
                    elif kind == 'list_pid':
                        results[name] = ('ok', {(c.pid, c.tag) for c in pers.get_process_checkpoints(pids[op[1]])})
                    elif kind == 'delete':
                        results[name] = ('ok', pers.delete_checkpoint(pids[op[1]], op[2]))
                    elif kind == 'delete_pid':
                        results[name] = ('ok', pers.delete_process_checkpoints(pids[op[1]]))
                    else:
                        raise ValueError(kind)
                except Exception as exc:  # noqa: BLE001
                    results[name] = ('raise', exc)
            # the model
            if kind == 'save_purging' and op[1] not in poisoned:
                proc = system.procs[op[1]]
                key = (proc.pid, op[2])
                for old in [k for k in model if k[0] == proc.pid]:
                    del model[old]
                model[key] = copy.deepcopy(persistence.Bundle(proc))
                touched_since_save.discard(key)
                classes.add('save-purging-own-checkpoints')
                expected = ('ok', None)
            elif kind in ('save', 'save_purging') and op[1] in poisoned:
                if kind == 'save_purging':
                    # the application purged its checkpoints itself before the save was refused
                    for old in [k for k in model if k[0] == system.procs[op[1]].pid]:
                        del model[old]
                expected = ('raise', None)
                classes.add('refused-save')
                if (system.procs[op[1]].pid, op[2]) in model:
                    classes.add('refused-save-over-existing-key')
            elif kind == 'save':
                proc = system.procs[op[1]]
                key = (proc.pid, op[2])
                if key in model:
                    classes.add('overwrite')
                model[key] = copy.deepcopy(persistence.Bundle(proc))
                touched_since_save.discard(key)
                expected = ('ok', None)
            elif kind in ('load', 'run_loaded'):
                key = (pids[op[1]], op[2])
                if key in model:
                    expected = ('ok', model[key])
                    if key in touched_since_save:
                        classes.add('progress-between-save-and-load')
                    if kind == 'run_loaded':
                        classes.add('run-loaded')
                        touched_since_save.add(key)
                else:
                    expected = ('raise', None)
                    classes.add('load-absent')
            elif kind == 'list_all':
                expected = ('ok', set(model))
            elif kind == 'list_pid':
                expected = ('ok', {k for k in model if k[0] == pids[op[1]]})
            elif kind == 'delete':
                key = (pids[op[1]], op[2])
                if key not in model:
                    classes.add('delete-absent')
                model.pop(key, None)
                expected = ('ok', None)
            else:
                if not any(k[0] == pids[op[1]] for k in model):
                    classes.add('delete-absent')
                for key in [k for k in model if k[0] == pids[op[1]]]:
                    del model[key]
                expected = ('ok', None)
            hist.append([op, {n: r[0] for n, r in results.items()}])
            for name, res in results.items():
                if res[0] != expected[0]:
                    detail = f'{name} persister: {res[0]} ({res[1]!r})' if res[0] == 'raise' else f'{name} persister returned a value'
                    v(f'{kind}-outcome', f'{where}: {detail}, the model expects {expected[0]}')
                    continue
                if res[0] == 'raise':
                    continue
                if kind == 'load':
                    diff = same(expected[1], res[1])
                    if diff:
                        v('load-differs-from-snapshot', f'{where}: {name} persister: {diff}')
                elif kind == 'run_loaded':
                    _tag, _outcome, again = res[1]
                    diff = same(expected[1], again)
                    if diff:
                        v('snapshot-changed-by-running-loaded', f'{where}: {name} persister: {diff}')
                elif kind in ('list_all', 'list_pid'):
                    if res[1] != expected[1]:
                        v('list-differs', f'{where}: {name} persister lists {sorted(map(str, res[1]))} expected {sorted(map(str, expected[1]))}')
            if kind == 'run_loaded' and all(r[0] == 'ok' for r in results.values()):
                if results['memory'][1][1] != results['pickle'][1][1]:
                    v('persisters-differ', f"{where}: continued runs differ: memory {results['memory'][1][1]} pickle {results['pickle'][1][1]}")
            if viol:
                break
        if case.get('memory_loader') and not viol and 0 not in poisoned:
            # a memory persister constructed with an object loader names the classes in its checkpoints through it, and
            # records it, so that the checkpoint can be read back where the default loader does not know the classes
            from .. import loaders_h

            loaders_h.TagLoader.reset()
            with_loader = persistence.InMemoryPersister(loader=loaders_h.TagLoader())
            try:
                with_loader.save_checkpoint(system.procs[0], 'L')
                named = loaders_h.TagLoader.identifies
                back = _run_loaded(with_loader.load_checkpoint(system.procs[0].pid, 'L'))
                if named == 0 or loaders_h.TagLoader.owned_loads == 0:
                    v('persister-loader-not-used', f'InMemoryPersister(loader=L): L named {named} classes at save and resolved {loaders_h.TagLoader.owned_loads} of its names at load')
                plain = _run_loaded(persistence.Bundle(system.procs[0]))
                if back != plain:
                    v('persister-loader-changes-run', f'the checkpoint taken through the loader continues as {back}, a plain bundle as {plain}')
            except Exception as exc:  # noqa: BLE001
                v('persister-loader-raised', f'{type(exc).__name__}: {str(exc)[:200]}')
            classes.add('memory-persister-with-loader')
    finally:
        system.close()
        shutil.rmtree(tmpdir, ignore_errors=True)
    nontrivial = bool(classes & {'overwrite', 'delete-absent', 'progress-between-save-and-load', 'run-loaded', 'refused-save-over-existing-key', 'save-purging-own-checkpoints'})
    classes.add('pids:' + case['pid_kind'])
    if case.get('dirname'):
        classes.add('dir:' + case['dirname'])
    return {'violations': viol, 'nontrivial': nontrivial, 'classes': sorted(classes), 'history': {'pid_kind': case['pid_kind'], 'ops': hist[:45]}}


SIGNATURES = {}
