"""C19 -- any Savable round-trips its declared members through the named loader."""

import asyncio
import copy

from hypothesis import strategies as st
from plumpy import loaders, persistence

from .. import gen_classes, loaders_h
from ..programs import dec, jkey
from ..steploop import StepLoop
from .c07 import same

ID = 'C19'
LEVEL = 'exploration'
RULE = (
    'cases = (class shape: an inheritance chain of <=4 Savable classes with @auto_persist declarations at any level plus '
    'a sibling branch; an instance whose declared members are plain values (nested lists/dicts/tuples), bound methods, '
    'nested Savables to depth 3 and SavableFutures in the four states pending / result / exception / cancelled, plus '
    'undeclared attributes; loader configuration default | global custom | per-save custom, with or without a loader in '
    'the load context); non-trivial = the instance has an inherited declaration, a nested Savable, a future or a custom '
    'loader; distinct = SHA-1 of the case JSON'
)
ASSUMPTIONS = [
    'declarations use the @auto_persist decorator only',
    'custom loaders extend DefaultObjectLoader and fall back to it for identifiers they do not own (nested Savables are saved with default identifiers)',
    'futures are recreated on the event loop given in the load context',
]
BUDGET = {
    'quick': {'enum': ['futures-x-loaders'], 'hyp': 2500, 'shards': 8},
    'thorough': {'enum': ['futures-x-loaders'], 'hyp': 100000, 'shards': 16},
}
MEMBERS = ['m0', 'm1', 'm2', 'm3', 'm4', 'm5']
FUTURES = ['pending', ['result', 5], ['result', [1, {'a': 2}]], ['exception', 'boom'], 'cancelled']


# -- generated classes --------------------------------------------------------------------------
class SBase(persistence.Savable):
    """Common behaviour of generated Savables: members are set from a dict, two methods can be persisted."""

    def __init__(self, members=None):
        super().__init__()
        for key, val in (members or {}).items():
            setattr(self, key, val)

    def meth_a(self):
        return ('a', id(self))

    def meth_b(self):
        return ('b', id(self))


def make_classes(shape):
    """shape = [{"name": n, "base": name|None, "persist": [...]|None}, ...] -> {name: class}"""
    key = jkey(shape)[:12]
    out = {}
    for spec in shape:
        cname = f"S_{key}_{spec['name']}"
        cls = getattr(gen_classes, cname, None)
        if cls is None:
            base = out[spec['base']] if spec['base'] else SBase
            body = {'__module__': gen_classes.__name__}
            if spec.get('hook'):
                # members declared in the persist() hook (run lazily before the first save/load) instead of by the decorator
                def persist(klass, _members=tuple(spec['persist'])):
                    super(klass._pv_hook_owner, klass).persist()
                    klass.auto_persist(*_members)

                body['persist'] = classmethod(persist)
            if spec.get('manual'):
                # members persisted by hand with the public save_members / load_members from overridden state methods
                def save_instance_state(self, out_state, save_context, _members=tuple(spec['manual'])):
                    super(self._pv_manual_owner, self).save_instance_state(out_state, save_context)
                    self.save_members(_members, out_state)
                    # ... and a note of its own in the user metadata of the saved state (next to what the library keeps there)
                    persistence.Savable.set_custom_meta(out_state, 'pv_note', 'kept')

                def load_instance_state(self, saved_state, load_context, _members=tuple(spec['manual'])):
                    super(self._pv_manual_owner, self).load_instance_state(saved_state, load_context)
                    self.load_members(_members, saved_state, load_context)

                body['save_instance_state'] = save_instance_state
                body['load_instance_state'] = load_instance_state
            cls = type(cname, (base,), body)
            if spec.get('manual'):
                cls._pv_manual_owner = cls
            if spec.get('hook'):
                cls._pv_hook_owner = cls
            elif spec['persist'] is not None:
                cls = persistence.auto_persist(*spec['persist'])(cls)
            setattr(gen_classes, cname, cls)
        out[spec['name']] = cls
    return out


def _hook_lineage(shape):
    """Names of the classes that declare members in a persist() hook, or inherit from one that does."""
    byname = {s['name']: s for s in shape}
    out = set()
    for spec in shape:
        cur = spec
        while cur is not None:
            if cur.get('hook'):
                out.add(spec['name'])
                break
            cur = byname[cur['base']] if cur['base'] else None
    return out


def declared(shape, name, manual=True):
    byname = {s['name']: s for s in shape}
    members = set()
    cur = byname[name]
    while cur is not None:
        if cur['persist'] is not None:
            members |= set(cur['persist'])
        if manual and cur.get('manual'):
            members |= set(cur['manual'])
        cur = byname[cur['base']] if cur['base'] else None
    return members


def build(classes, shape, inst, loop, futs):
    """inst = {"cls": name, "members": {m: spec}, "extra": {...}}"""
    obj = classes[inst['cls']]()
    for member, spec in inst['members'].items():
        kind = spec[0]
        if kind == 'val':
            value = dec(copy.deepcopy(spec[1]))
        elif kind == 'method':
            value = getattr(obj, spec[1])
        elif kind == 'savable':
            value = build(classes, shape, spec[1], loop, futs)
        elif kind == 'future':
            value = (gen_classes.PvFuture if len(spec) > 2 and spec[2] else persistence.SavableFuture)(loop=loop)
            state = spec[1]
            if state == 'cancelled':
                value.cancel()
            elif isinstance(state, list) and state[0] == 'result':
                value.set_result(copy.deepcopy(state[1]))
            elif isinstance(state, list) and state[0] == 'exception':
                value.set_exception(ValueError(state[1]))
            elif isinstance(state, list) and state[0] == 'falsy-exception':
                value.set_exception(gen_classes.QuietError(state[1]))
            futs.append(value)
        else:
            raise ValueError(spec)
        setattr(obj, member, value)
    for key, val in inst.get('extra', {}).items():
        setattr(obj, key, val)
    return obj


# -- generation -----------------------------------------------------------------------------------
def _shape_chain(n, persists, sibling=None):
    shape = []
    prev = None
    for i in range(n):
        shape.append({'name': f'C{i}', 'base': prev, 'persist': persists[i]})
        prev = f'C{i}'
    if sibling is not None:
        shape.append({'name': 'D', 'base': sibling[0], 'persist': sibling[1]})
    return shape


def enumerate_cases(tier, scope):
    shape = _shape_chain(3, [['m0'], None, ['m1', 'm2']], sibling=('C0', ['m3']))
    for fut in FUTURES:
        for loader in ('default', 'global', 'persave', 'persave+global'):
            for load_with in ('none', 'ctx'):
                for cls in ('C2', 'D', 'C1'):
                    members = {m: ['val', [1, {'k': [2]}]] for m in sorted(declared(shape, cls))}
                    first = sorted(members)[0]
                    members[first] = ['future', fut]
                    if cls == 'C2':
                        members['m2'] = ['savable', {'cls': 'D', 'members': {'m0': ['method', 'meth_a'], 'm3': ['future', fut]}}]
                    yield {'shape': shape, 'instance': {'cls': cls, 'members': members, 'extra': {'zz': 1}}, 'loader': loader, 'load_with': load_with}
                    if fut == FUTURES[1] and cls == 'C2':
                        yield {'shape': shape, 'instance': {'cls': cls, 'members': members, 'extra': {'zz': 1}}, 'loader': loader, 'load_with': load_with, 'recreate': True}

                    if loader == 'global' and load_with == 'ctx':
                        yield {'shape': shape, 'instance': {'cls': cls, 'members': members, 'extra': {'zz': 1}}, 'loader': loader, 'load_with': load_with, 'reset_global': True}
    # another object of the family saved and loaded first (different loader configuration, caller-owned context reused);
    # members declared by the persist() hook of a class below a non-declaring base
    hooked = _shape_chain(3, [None, ['m0', 'm1'], ['m2']])
    hooked[1]['hook'] = True
    for shp, pre_classes, main_classes in ((shape, ('C0', 'D'), ('C2', 'C1')), (hooked, ('C0',), ('C1', 'C2'))):
        for loader in ('default', 'global', 'persave', 'persave+global'):
            for pre_loader in ('default', 'other'):
                for share in (False, True):
                    for pre_cls in pre_classes:
                        for cls in main_classes:
                            members = {m: ['val', [1, {'k': [2]}]] for m in sorted(declared(shp, cls))}
                            if 'm1' in members:
                                members['m1'] = ['method', 'meth_b']
                            yield {'shape': shp, 'instance': {'cls': cls, 'members': members, 'extra': {'zz': 1}}, 'loader': loader, 'load_with': 'none',
                                   'prelude': {'cls': pre_cls, 'loader': pre_loader, 'share_ctx': share}}
    # members saved by hand with save_members()/load_members() next to the declared ones; contexts built by copyextend()
    manual = _shape_chain(2, [['m0', 'm1'], ['m2']])
    manual[1]['manual'] = ['m3', 'm4']
    for loader in ('default', 'persave', 'persave+global'):
        for load_with in ('none', 'ctx'):
            for kinds in ((['method', 'meth_a'], ['method', 'meth_b']), (['savable', {'cls': 'C0', 'members': {'m0': ['val', 1], 'm1': ['val', 2]}}], ['method', 'meth_b']), (['val', 1], ['future', ['result', 5]])):
                members = {'m0': kinds[0], 'm1': ['val', [1]], 'm2': kinds[1], 'm3': kinds[0], 'm4': kinds[1]}
                yield {'shape': manual, 'instance': {'cls': 'C1', 'members': members}, 'loader': loader, 'load_with': load_with, 'ctx_extend': True}
                yield {'shape': manual, 'instance': {'cls': 'C1', 'members': members}, 'loader': loader, 'load_with': load_with, 'redefine': True, 'strict': True}
    yield {'shape': shape, 'instance': {'cls': 'C2', 'members': {'m0': ['val', 1], 'm1': ['val', 2], 'm2': ['val', 3]}}, 'loader': 'default', 'load_with': 'none', 'tamper': 'pv.gen_classes:DoesNotExist'}
    # an identifier that a dict-backed loader does not know (its lookup fails with KeyError): refused with ValueError too
    for loader, load_with in (('persave', 'ctx'), ('persave', 'none'), ('global', 'none')):
        yield {'shape': shape, 'instance': {'cls': 'C2', 'members': {'m0': ['val', 1], 'm1': ['val', 2], 'm2': ['val', 3]}}, 'loader': loader, 'load_with': load_with, 'registry_loader': True, 'tamper': 'reg!not-registered'}
    # futures of an application-defined SavableFuture subclass keep their class in every state; a future that failed with
    # an exception that is falsy (an exception class with __len__) failed all the same
    for fut in ('pending', ['result', 5], ['exception', 'boom'], 'cancelled', ['falsy-exception', 'quiet']):
        for sub in (True, False):
            if fut[0] != 'falsy-exception' and not sub:
                continue
            members = {'m0': ['future', fut, sub], 'm1': ['val', 1], 'm2': ['savable', {'cls': 'D', 'members': {'m0': ['val', 2], 'm3': ['future', fut, sub]}}]}
            for loader in ('default', 'persave'):
                yield {'shape': shape, 'instance': {'cls': 'C2', 'members': members}, 'loader': loader, 'load_with': 'none'}
    # a member that holds a bound method of another object of the same class, of a base class, of a sibling class
    for cls, other in (('C2', 'C2'), ('C2', 'C0'), ('D', 'D'), ('D', 'C0'), ('C1', 'C1')):
        for loader in ('default', 'persave'):
            members = {m: ['val', 1] for m in sorted(declared(shape, cls))}
            yield {'shape': shape, 'instance': {'cls': cls, 'members': members}, 'loader': loader, 'load_with': 'none', 'foreign_method': [sorted(members)[-1], other]}
    yield {'shape': shape, 'instance': {'cls': 'C2', 'members': {'m0': ['val', 1], 'm1': ['val', 2], 'm2': ['val', 3]}}, 'loader': 'default', 'load_with': 'none', 'tamper': 'no-colon-here'}
    yield {'shape': shape, 'instance': {'cls': 'C2', 'members': {'m0': ['val', 1], 'm1': ['val', 2], 'm2': ['val', 3]}}, 'loader': 'default', 'load_with': 'none', 'tamper': 'pv.broken_import:Thing'}
    yield {'shape': shape, 'instance': {'cls': 'C2', 'members': {'m0': ['val', 1], 'm1': ['val', 2], 'm2': ['val', 3]}}, 'loader': 'default', 'load_with': 'none', 'tamper': 'nomodule.xyz:Thing'}
    yield {'shape': shape, 'instance': {'cls': 'C2', 'members': {'m0': ['val', 1], 'm1': ['val', 2], 'm2': ['val', 3]}}, 'loader': 'persave', 'load_with': 'none', 'tamper': 'tag!pv.gen_classes:DoesNotExist'}
    # the loader recorded in the saved state cannot be found any more when the state is loaded (its module was renamed):
    # the class names in the state were written by that loader, so nothing else may be asked to read them
    for loader in ('persave', 'persave+global'):
        for bad in ('pv.loaders_h:RenamedLoader', 'nomodule.xyz:Loader'):
            for recreate in (False, True):
                yield {'shape': shape, 'instance': {'cls': 'C2', 'members': {'m0': ['val', 1], 'm1': ['val', 2], 'm2': ['savable', {'cls': 'D', 'members': {'m0': ['val', 2], 'm3': ['val', 3]}}]}}, 'loader': loader, 'load_with': 'none', 'tamper_loader': bad, 'recreate': recreate}


VALS = st.recursive(
    st.one_of(st.integers(-1, 3), st.sampled_from(['s', '']), st.none(), st.booleans()),
    lambda inner: st.one_of(st.lists(inner, max_size=3), st.dictionaries(st.sampled_from(['a', 'b']), inner, max_size=2), st.builds(lambda xs: {'__tuple__': xs}, st.lists(inner, max_size=2))),
    max_leaves=5,
)


@st.composite
def _instance(draw, shape, depth):
    names = [s['name'] for s in shape]
    cls = draw(st.sampled_from(names))
    members = {}
    for m in sorted(declared(shape, cls)):
        kinds = ['val', 'val', 'val', 'method', 'future']
        if depth > 0:
            kinds += ['savable', 'savable']
        kind = draw(st.sampled_from(kinds))
        if kind == 'val':
            members[m] = ['val', draw(VALS)]
        elif kind == 'method':
            members[m] = ['method', draw(st.sampled_from(['meth_a', 'meth_b']))]
        elif kind == 'future':
            members[m] = ['future', draw(st.sampled_from(FUTURES))]
        else:
            members[m] = ['savable', draw(_instance(shape, depth - 1))]
    extra = {'zz': 1} if draw(st.booleans()) else {}
    return {'cls': cls, 'members': members, 'extra': extra}


@st.composite
def _cases(draw, tier):
    n = draw(st.integers(1, 4))
    persists = []
    for _ in range(n):
        persists.append(draw(st.one_of(st.none(), st.lists(st.sampled_from(MEMBERS), max_size=3, unique=True))))
    sibling = None
    if draw(st.booleans()):
        sibling = (f'C{draw(st.integers(0, n - 1))}', draw(st.lists(st.sampled_from(MEMBERS), max_size=3, unique=True)))
    shape = _shape_chain(n, persists, sibling)
    if draw(st.integers(0, 3)) == 0:
        # one class declares its members in the persist() hook; its ancestors declare nothing (the hook updates the
        # set it finds, so a hook below a declaring class is a different, undocumented, story)
        candidates = []
        byname = {s['name']: s for s in shape}
        for spec in shape:
            cur, clean = (byname[spec['base']] if spec['base'] else None), spec['persist'] is not None
            while cur is not None and clean:
                clean = cur['persist'] is None
                cur = byname[cur['base']] if cur['base'] else None
            if clean:
                candidates.append(spec['name'])
        if candidates:
            byname[draw(st.sampled_from(candidates))]['hook'] = True
    if draw(st.integers(0, 3)) == 0:
        spec = draw(st.sampled_from(shape))
        free = [m for m in MEMBERS if m not in declared(shape, spec['name']) and not any(m in (s2['persist'] or []) for s2 in shape)]
        if free:
            spec['manual'] = draw(st.lists(st.sampled_from(free), min_size=1, max_size=2, unique=True))
    case = {
        'shape': shape,
        'instance': draw(_instance(shape, 3)),
        'loader': draw(st.sampled_from(['default', 'default', 'global', 'persave', 'persave+global'])),
        'load_with': draw(st.sampled_from(['none', 'none', 'ctx'])),
    }
    if draw(st.integers(0, 9)) == 0:
        case['tamper'] = draw(st.sampled_from(['pv.gen_classes:DoesNotExist', 'no-colon-here', 'nomodule.xyz:Thing', 'pv.broken_import:Thing']))
    elif case['loader'] in ('persave', 'persave+global') and case['load_with'] == 'none' and draw(st.integers(0, 5)) == 0:
        case['tamper_loader'] = draw(st.sampled_from(['pv.loaders_h:RenamedLoader', 'nomodule.xyz:Loader', 'no-colon-here']))
    case['ctx_extend'] = draw(st.booleans())
    case['reset_global'] = draw(st.booleans())
    case['redefine'] = draw(st.integers(0, 3)) == 0
    case['strict'] = draw(st.booleans())
    if draw(st.integers(0, 2)) == 0:
        case['prelude'] = {'cls': draw(st.sampled_from([s['name'] for s in shape])), 'loader': draw(st.sampled_from(['default', 'other'])), 'share_ctx': draw(st.booleans())}
    return case


def strategy(tier):
    return _cases(tier)


# -- checking -------------------------------------------------------------------------------------
def fut_state(fut):
    if not fut.done():
        return ['pending']
    if fut.cancelled():
        return ['cancelled']
    exc = fut.exception()
    if exc is not None:
        return ['exception', type(exc).__name__, [repr(a) for a in exc.args]]
    return ['result', fut.result()]


def compare(orig_spec, shape, classes, new, path, v):
    """Check the recreated object ``new`` against the instance spec it was built from."""
    cls = classes[orig_spec['cls']]
    if type(new) is not cls:
        v('wrong-class', f'{path}: recreated as {type(new).__name__}, expected {cls.__name__}')
        return
    want = declared(shape, orig_spec['cls'])
    for member in sorted(want):
        spec = orig_spec['members'][member]
        if not hasattr(new, member):
            v('member-missing', f'{path}.{member} was not restored')
            continue
        got = getattr(new, member)
        kind = spec[0]
        if kind == 'val':
            diff = same(dec(copy.deepcopy(spec[1])), got, f'{path}.{member}')
            if diff:
                v('value-differs', diff)
        elif kind == 'method':
            if not (callable(got) and getattr(got, '__self__', None) is new and got.__name__ == spec[1]):
                v('method-not-rebound', f'{path}.{member}: {got!r}')
        elif kind == 'savable':
            compare(spec[1], shape, classes, got, f'{path}.{member}', v)
        elif kind == 'future':
            if not isinstance(got, persistence.SavableFuture):
                v('future-not-restored', f'{path}.{member}: {got!r}')
            else:
                st_new = fut_state(got)
                exp = spec[1]
                if exp == 'pending':
                    want_state = ['pending']
                elif exp == 'cancelled':
                    want_state = ['cancelled']
                elif exp[0] == 'result':
                    want_state = ['result', exp[1]]
                elif exp[0] == 'falsy-exception':
                    want_state = ['exception', 'QuietError', [repr(exp[1])]]
                else:
                    want_state = ['exception', 'ValueError', [repr(exp[1])]]
                if len(spec) > 2 and spec[2] and type(got) is not gen_classes.PvFuture:
                    v('future-class-lost', f'{path}.{member}: a {fut_state(got)[0]} future of the subclass PvFuture came back as {type(got).__name__}')
                if st_new != want_state:
                    v('future-state', f'{path}.{member}: restored {st_new}, expected {want_state}')
    for key in orig_spec.get('extra', {}):
        if key not in want and hasattr(new, key):
            v('undeclared-member-restored', f'{path}.{key}')


def _futures_of(obj, path, depth=0):
    """Every SavableFuture reachable through the members of a restored object."""
    if depth > 6:
        return
    for key, val in list(vars(obj).items()):
        if isinstance(val, persistence.SavableFuture):
            yield f'{path}.{key}', val
        elif isinstance(val, persistence.Savable):
            yield from _futures_of(val, f'{path}.{key}', depth + 1)


def _mutate_value(val):
    """Mutate a container in place, at every nesting level."""
    if isinstance(val, list):
        for item in list(val):
            _mutate_value(item)
        val.append('mutated')
    elif isinstance(val, dict):
        for item in list(val.values()):
            _mutate_value(item)
        val['mutated'] = True
    elif isinstance(val, tuple):
        for item in val:
            _mutate_value(item)


def _mutate_originals(obj, seen=None):
    """Mutate every nested container reachable from the members of the original (after save)."""
    for _key, val in list(vars(obj).items()):
        if isinstance(val, persistence.Savable) and not isinstance(val, persistence.SavableFuture):
            _mutate_originals(val)
        elif isinstance(val, persistence.SavableFuture):
            if val.done() and not val.cancelled() and val.exception() is None:
                _mutate_value(val.result())
        else:
            _mutate_value(val)


def execute(case):
    viol = []

    def v(clause, detail):
        viol.append({'clause': clause, 'detail': detail})

    shape = case['shape']
    classes = make_classes(shape)
    # sibling / parent declaration sets never leak
    hooked = _hook_lineage(shape)
    for spec in shape:
        if spec['name'] in hooked:
            continue  # declared lazily by the persist() hook: judged through what is saved
        cls = classes[spec['name']]
        got = set(cls._auto_persist or ())
        if got != declared(shape, spec['name'], manual=False):
            v('declaration-set', f"{spec['name']}: auto-persist set {sorted(got)} expected {sorted(declared(shape, spec['name'], manual=False))}")
    loop = StepLoop()
    asyncio.set_event_loop(loop)
    # the state is loaded for another loop than the one that is current (and running) at that moment: the load context
    # says where the futures live (a context the caller keeps using carries the loop it was made with)
    load_loop = StepLoop()
    prev_global = loaders.get_object_loader()
    custom = loaders_h.RegistryLoader() if case.get('registry_loader') else loaders_h.TagLoader()  # (the registry one is dict-backed)
    loaders_h.TagLoader.reset()
    loaders_h.OtherLoader.reset()
    try:
        with loop.as_running():
            futs = []
            obj = build(classes, shape, case['instance'], loop, futs)
            save_ctx = None
            shared_ctx = None
            prelude = case.get('prelude')
            if prelude:
                # another object of the family is saved and loaded first, through a context the caller keeps using
                pre_inst = {'cls': prelude['cls'], 'members': {m: ['val', 1] for m in sorted(declared(shape, prelude['cls']))}}
                pre_obj = build(classes, shape, pre_inst, loop, futs)
                pre_ctx = persistence.LoadSaveContext(loader=loaders_h.OtherLoader()) if prelude['loader'] == 'other' else None
                shared_ctx = persistence.LoadSaveContext(loop=loop)
                try:
                    pre_state = pre_obj.save(pre_ctx)
                    pre_new = persistence.Savable.load(pre_state, shared_ctx)
                    if type(pre_new) is not classes[prelude['cls']]:
                        v('prelude-wrong-class', f'{type(pre_new).__name__} expected {classes[prelude["cls"]].__name__}')
                    compare(pre_inst, shape, classes, pre_new, 'prelude', v)
                except BaseException as exc:  # noqa: BLE001
                    v('prelude-raised', f'{type(exc).__name__}: {str(exc)[:200]}')
                if not prelude.get('share_ctx'):
                    shared_ctx = None
            if case['loader'] == 'global':
                loaders.set_object_loader(custom)
            elif case['loader'] == 'persave':
                save_ctx = persistence.LoadSaveContext(loader=custom)
                if case.get('ctx_extend'):
                    save_ctx = save_ctx.copyextend(note='extended')  # extending a context keeps its loader
            elif case['loader'] == 'persave+sameglobal':
                # the loader is installed globally AND handed over for this save (so it is recorded in the saved state);
                # when the state is loaded it is no longer the global one, and the context names no loader: the recorded
                # one is in charge, of nested objects too
                loaders.set_object_loader(custom)
                save_ctx = persistence.LoadSaveContext(loader=custom)
            elif case['loader'] == 'persave+global':
                # a different loader (of a subclass) is installed globally: the one recorded at save must still win
                loaders.set_object_loader(loaders_h.OtherLoader())
                save_ctx = persistence.LoadSaveContext(loader=custom)
            foreign = case.get('foreign_method')
            if foreign:
                # a declared member holds a bound method of ANOTHER object (same class or not): it cannot be saved by
                # name - after loading it would be bound to the wrong object - so the save is refused
                other = classes[foreign[1]]()
                setattr(obj, foreign[0], getattr(other, 'meth_a'))
                try:
                    obj.save(save_ctx)
                    v('foreign-method-saved', f'member {foreign[0]} holds a method bound to another {foreign[1]} object, yet save() succeeded')
                except TypeError:
                    pass
                except BaseException as exc:  # noqa: BLE001
                    v('foreign-method-error-type', f'{type(exc).__name__}: {exc}')
                return {'violations': viol, 'nontrivial': True, 'classes': ['foreign-method'], 'history': {}}
            try:
                state = obj.save(save_ctx)
            except BaseException as exc:  # noqa: BLE001
                v('save-raised', f'{type(exc).__name__}: {exc}')
                state = None
            if state is not None:
                keys = set(state) - {'!!meta'}
                want = declared(shape, case['instance']['cls'])
                if keys != want:
                    v('saved-members', f'saved keys {sorted(keys)} expected {sorted(want)}')
                snapshot = copy.deepcopy(state)
                _mutate_originals(obj)
                diff = same(snapshot, state)
                if diff:
                    v('not-copied-at-save', f'mutating the original after save() changed the saved state: {diff}')
                if case.get('tamper'):
                    state['!!meta']['class_name'] = case['tamper']
                tamper_loader = case.get('tamper_loader') if case['loader'] in ('persave', 'persave+global') and case['load_with'] == 'none' and not case.get('tamper') and not case.get('prelude') else None
                if tamper_loader:
                    state['!!meta']['user']['object_loader'] = tamper_loader
                if case.get('redefine'):
                    # the classes are defined again under the same names (a module reloaded, a notebook cell run again):
                    # names are resolved when a state is loaded, so the object must be an instance of the new definitions
                    for spec in shape:
                        cname = f"S_{jkey(shape)[:12]}_{spec['name']}"
                        if hasattr(gen_classes, cname):
                            delattr(gen_classes, cname)
                    classes = make_classes(shape)
                if case['loader'] == 'persave+sameglobal':
                    loaders.set_object_loader(prev_global)
                if case.get('reset_global') and case['loader'] == 'global' and case['load_with'] == 'ctx':
                    # the loader that named everything at save time (it was the global one) is not global any more when the
                    # state is loaded, but it is handed over in the load context: it is in charge of nested objects too
                    loaders.set_object_loader(prev_global)
                load_ctx = shared_ctx if shared_ctx is not None else persistence.LoadSaveContext(loop=load_loop)
                if case['load_with'] == 'ctx' and case['loader'] != 'default':
                    load_ctx = persistence.LoadSaveContext(loop=load_loop, loader=custom)
                    if case.get('ctx_extend'):
                        load_ctx = persistence.LoadSaveContext(loader=custom).copyextend(loop=load_loop)
                before_loads = loaders_h.TagLoader.owned_loads
                before_any_loads = loaders_h.TagLoader.loads
                if case.get('strict') and case['loader'] == 'default' and not case.get('tamper'):
                    # a loader with an allow-list that does not contain the class of the object: refused, not resolved
                    # through some other loader
                    strict = loaders_h.StrictLoader(allowed=())
                    try:
                        leaked = persistence.Savable.load(copy.deepcopy(state), persistence.LoadSaveContext(loop=load_loop, loader=strict))
                        v('strict-loader-bypassed', f'a loader that refuses every identifier was given in the load context, yet {type(leaked).__name__} was created')
                    except ValueError:
                        pass
                    except BaseException as exc:  # noqa: BLE001
                        v('strict-loader-error-type', f'{type(exc).__name__}: {str(exc)[:160]}')
                try:
                    if case.get('recreate') and not case.get('tamper'):
                        # the class is known to the caller: recreated directly, the context only says where futures live
                        new = classes[case['instance']['cls']].recreate_from(state, load_ctx)
                    else:
                        new = persistence.Savable.load(state, load_ctx)
                    err = None
                except BaseException as exc:  # noqa: BLE001
                    new, err = None, exc
                if case.get('tamper'):
                    if err is None:
                        v('unknown-class-loaded', f"identifier {case['tamper']!r} produced {new!r}")
                    elif not isinstance(err, ValueError):
                        v('unknown-class-error-type', f'{type(err).__name__}: {err}')
                elif tamper_loader:
                    if err is None:
                        v('recorded-loader-bypassed', f'the state records the loader {tamper_loader!r}, which cannot be found, yet {type(new).__name__} was created through another loader')
                    elif not isinstance(err, ValueError):
                        v('unknown-loader-error-type', f'{type(err).__name__}: {err}')
                elif err is not None:
                    v('load-raised', f'{type(err).__name__}: {str(err)[:200]}')
                else:
                    compare(case['instance'], shape, classes, new, 'obj', v)
                    want_loop = loop if shared_ctx is not None and load_ctx is shared_ctx else load_loop
                    for where, fut in _futures_of(new, 'obj'):
                        if fut.get_loop() is not want_loop:
                            v('future-on-wrong-loop', f'{where}: the restored future ({fut_state(fut)[0]}) lives on the loop that was current while loading, not on the loop given in the load context')
                            break
                    has_nested = any(spec[0] == 'savable' for spec in case['instance']['members'].values())
                    if case.get('recreate') and case['loader'] in ('persave', 'persave+global') and has_nested and loaders_h.TagLoader.loads <= before_any_loads:
                        # recreated directly from its class: the loader in charge (recorded in the state, or given in the
                        # context) is the one that is asked for the classes of the nested objects
                        v('recorded-loader-not-consulted', 'nested objects were resolved without asking the loader that the saved state records')
                    if case['loader'] != 'default' and not case.get('recreate') and loaders_h.TagLoader.owned_loads <= before_loads:
                        v('custom-loader-not-used', 'the class was not resolved through the custom loader')
                    if not viol:
                        if (case.get('reset_global') and case['loader'] == 'global' and case['load_with'] == 'ctx') or case['loader'] == 'persave+sameglobal':
                            loaders.set_object_loader(custom)  # save again under the configuration of the first save
                        try:
                            again = new.save(save_ctx)
                            diff = same(snapshot, again)
                            if diff:
                                v('resave-differs', diff)
                        except BaseException as exc:  # noqa: BLE001
                            v('resave-raised', f'{type(exc).__name__}: {exc}')
            for fut in futs:
                if fut.done() and not fut.cancelled():
                    fut.exception()
    finally:
        loaders.set_object_loader(prev_global)
        loop.shutdown()
        load_loop.shutdown()
        asyncio.set_event_loop(None)

    inst = case['instance']
    flat = _flat_kinds(inst)
    inherited = any(s['base'] and s['name'] == inst['cls'] for s in shape)
    nontrivial = bool(inherited or {'savable', 'future'} & flat or case['loader'] != 'default')
    classes_out = ['loader:' + case['loader'] + '/' + case['load_with']] + ['kind:' + k for k in sorted(flat)]
    if case.get('tamper'):
        classes_out.append('tampered')
    elif case.get('tamper_loader') and case['loader'] in ('persave', 'persave+global') and case['load_with'] == 'none' and not case.get('prelude'):
        classes_out.append('recorded-loader-unresolvable')
    if case.get('redefine'):
        classes_out.append('classes-redefined-before-load')
    if case.get('reset_global') and case['loader'] == 'global' and case['load_with'] == 'ctx':
        classes_out.append('global-loader-reset-before-load')
    if case.get('strict') and case['loader'] == 'default':
        classes_out.append('strict-loader-probe')
    if case.get('ctx_extend') and case['loader'] in ('persave', 'persave+global'):
        classes_out.append('context-extended')
    if any(s2.get('manual') for s2 in shape):
        classes_out.append('manual-save-members')
    if case.get('prelude'):
        classes_out.append('prelude:' + case['prelude']['loader'] + ('/shared-ctx' if case['prelude'].get('share_ctx') else ''))
    if inst['cls'] in _hook_lineage(shape):
        classes_out.append('persist-hook')
    for f in _flat_futures(inst):
        classes_out.append('future:' + (f if isinstance(f, str) else f[0]))
    return {'violations': viol, 'nontrivial': nontrivial, 'classes': sorted(set(classes_out)), 'history': {'cls': inst['cls'], 'members': {k: s[0] for k, s in inst['members'].items()}, 'loader': case['loader']}}


def _flat_kinds(inst):
    out = set()
    for spec in inst['members'].values():
        out.add(spec[0])
        if spec[0] == 'savable':
            out |= _flat_kinds(spec[1])
    return out


def _flat_futures(inst):
    for spec in inst['members'].values():
        if spec[0] == 'future':
            yield spec[1]
        elif spec[0] == 'savable':
            yield from _flat_futures(spec[1])


def shrink_candidates(case):
    inst = case['instance']
    for member, spec in inst['members'].items():
        if spec[0] != 'val' or spec[1] != 0:
            cand = copy.deepcopy(case)
            cand['instance']['members'][member] = ['val', 0]
            yield cand
    if case['loader'] != 'default':
        cand = copy.deepcopy(case)
        cand['loader'] = 'default'
        yield cand


SIGNATURES = {}
