"""C12 -- outputs are stored only if valid; success requires spec-conforming outputs."""

import copy

from hypothesis import strategies as st

from ..exec import Exec
from ..models import ports as pm

ID = 'C12'
LEVEL = 'exploration'
RULE = (
    'cases = (output spec tree: ports, nested and dynamic namespaces, types, validators, required flags; a sequence of <=8 '
    'emitted (port path, value) pairs over declared, dynamic, nested-dynamic and undeclared paths) in a one-step program '
    'returning a plain value; after every out() the outputs and the raised/not-raised outcome are compared with the '
    'reference model, at the end success is compared with the model validating the collected outputs; non-trivial = >=1 '
    'rejected emission or an unsuccessful finish; distinct = SHA-1 of the case JSON'
)
ASSUMPTIONS = [
    'a path is never used both as a leaf and as a namespace (x and x.y) within one sequence',
    'dynamic namespaces carry no namespace validator (plumpy copies it to dynamically created sub-namespaces, which the statement does not speak to)',
    'values emitted onto a declared namespace name are dicts',
]
BUDGET = {
    'quick': {'enum': ['small'], 'hyp': 4000, 'shards': 8},
    'thorough': {'enum': ['small'], 'hyp': 160000, 'shards': 16},
}

# spec classes whose port namespaces use another namespace separator (PortNamespace.NAMESPACE_SEPARATOR)
SEPARATORS = ['__', '/']
VALUES = [1, -1, 's', 'long', None, 2.5, [1], {'k': 1}, {'k': 's'}, {}, True, {'c': {'a': 1}, 'l': 's'}, {'l': 's', 'c': {'a': 1}}, {'c': {'a': 1}, 'l': 2}, {'c': {'a': {'b': 1}}, 'd': {'e': 's'}}]


def enumerate_cases(tier, scope):
    shapes = []
    for dyn in (True, False):
        for vt in (None, 'int'):
            for req in (True, False):
                shapes.append(dict(required=req, dynamic=dyn, valid_type=vt, validator=None, populate_defaults=True))
    ports = [pm.port(required=True, valid_type='int'), pm.port(required=False, valid_type='str', validator='short'), pm.port(required=True, valid_type=None, validator='nonneg'), pm.port(required=True, valid_type=None, validator='neg_empty'), pm.port(required=False, valid_type='int', validator='typed_nonneg')]
    paths = ['a', 'x', 'sub.q', 'sub.new', 'sub.deep.er', 'new.ns.leaf']
    for top in shapes:
        for sub in shapes:
            for pa in ports:
                tree = pm.ns({'a': pa, 'sub': pm.ns({'q': pm.port(required=False, valid_type='int')}, **sub)}, **top)
                for path in paths:
                    for value in (1, 's', -1, {'k': 1}, {'c': {'a': 1}, 'l': 's'}, {'c': {'a': 1}, 'l': 2}):
                        yield {'spec': tree, 'emissions': [[path, value]], 'ret': 0}
                for value in ({'q': 1}, {'q': 's'}, {'x': 1}, {'x': 's'}, {'x': {'y': 1}}, {'x': {'y': 's'}}):
                    yield {'spec': tree, 'emissions': [['sub', value]], 'ret': 0}
                    # the same onto a declared namespace without any explicit port
                    tree2 = copy.deepcopy(tree)
                    tree2['ports']['ext'] = pm.ns({}, **sub)
                    yield {'spec': tree2, 'emissions': [['a', 1], ['ext', value]], 'ret': 0}
                yield {'spec': tree, 'emissions': [['a', 1], ['sub.q', 2]], 'ret': 5}
                for late in ({'on_finish': 1}, {'on_exit_running': 1}, {'on_finish': 1, 'on_exit_running': 1}):
                    yield {'spec': tree, 'emissions': [['sub.q', 2], ['a', 1]], 'ret': 5, 'late': late}
                    yield {'spec': tree, 'emissions': [['a', 's'], ['sub.q', 2]], 'ret': 5, 'late': late}
                yield {'spec': tree, 'emissions': [], 'ret': 5}
    # namespace validators with the deprecated one-argument signature see the collected values as well
    legacy = pm.ns({'a': pm.port(required=False), 'b': pm.port(required=False, valid_type='int', validator='legacy_nonneg')}, validator='legacy_has_a', required=True)
    for emissions in ([['a', 1]], [['b', 2]], [['b', -1]], [['a', 0], ['b', 3]], []):
        yield {'spec': pm.ns({'g': legacy}), 'emissions': [['g.' + p, val] for p, val in emissions], 'ret': 0}
        yield {'spec': pm.ns({'g': legacy}), 'emissions': [['g', dict(emissions)]] if emissions else [], 'ret': 0}
    # a port-less namespace declared a second time with other options: the last declaration counts
    for first in shapes:
        for second in shapes:
            if first == second:
                continue
            tree = pm.ns({'a': pm.port(required=False), 'ext': pm.ns({}, **first), 'g': pm.ns({'inner': pm.ns({}, **first)})})
            for path in (['ext'], ['g', 'inner']):
                for value in (1, 's', {'k': 1}):
                    yield {'spec': tree, 'redeclare': [[path, second]], 'emissions': [['.'.join(path) + '.x', value]], 'ret': 0}
                yield {'spec': tree, 'redeclare': [[path, second]], 'emissions': [['.'.join(path), {'x': 1}]], 'ret': 0}
                yield {'spec': tree, 'redeclare': [[path, second]], 'emissions': [], 'ret': 0}
    # output ports re-filed under another key of their namespace after the declaration (outputs are emitted, stored and
    # checked at the end under the key)
    refile_tree = pm.ns({'energy': pm.port(required=True, valid_type='int'), 'note': pm.port(required=False, valid_type='str'), 'sub': pm.ns({'q': pm.port(required=True, valid_type='int')}, required=False)}, dynamic=True)
    for refile in ([[['energy'], 'final_energy']], [[['sub', 'q'], 'renamed']]):
        for emissions in ([['final_energy', 1]], [['energy', 1]], [['final_energy', 's']], [['final_energy', 1], ['energy', 's']], [['final_energy', 1], ['sub.renamed', 2]], [['final_energy', 1], ['sub.q', 2]], [['energy', 1], ['sub.renamed', 2]], []):
            yield {'spec': refile_tree, 'emissions': emissions, 'ret': 0, 'refile': refile}
    # a spec class with its own output port class (ProcessSpec.OUTPUT_PORT_TYPE) that refuses None
    strict_tree = pm.ns({'a': pm.port(required=False), 'b': pm.port(required=True, valid_type='int'), 'sub': pm.ns({'q': pm.port(required=False)}, dynamic=True)}, dynamic=True)
    for emissions in ([['a', None], ['b', 1]], [['b', 1], ['sub.q', None]], [['b', 1], ['sub', {'q': None}]], [['b', 1], ['a', 0]], [['b', 1], ['dyn', None]], [['b', 1], ['sub.dyn', None]], [['b', None]], [['b', 1], ['sub.d1.x', None]], [['b', 1], ['sub.d1.d2.x', None]], [['b', 1], ['sub.d1.d2.x', 3]], [['b', 1], ['new.deep.er', None]]):
        yield {'spec': strict_tree, 'emissions': emissions, 'ret': 0, 'strict_ports': True}
    # a namespace created on the fly (by an emission that is then refused, or that is fine) takes over every option of the
    # namespace that creates it - `required` too: left empty, a namespace under an optional host does not count at the end
    for req in (True, False):
        for vd in (None, 'has_a'):
            for vt in (None, 'int'):
                tree = pm.ns({'opt': pm.ns({}, dynamic=True, required=req, valid_type=vt, validator=vd), 'b': pm.port(required=False)})
                for emissions in ([['opt.a', 1], ['opt.sub.x', 's']], [['opt.a', 1], ['opt.sub.a', 2]], [['opt.a', 1], ['opt.sub.deep.x', 's']], [['opt.sub.x', 's'], ['opt.a', 1]], [['opt.sub.x', 's']], [['opt.a', 1], ['opt.sub.x', 's'], ['opt.sub.a', 3]], [['b', 1], ['opt.sub.x', 's']]):
                    yield {'spec': tree, 'emissions': emissions, 'ret': 0}
    # output namespaces declared with a nested name through create_port_namespace(): the options belong to the
    # terminal namespace, parents that did not exist take the defaults
    for sub in shapes:
        for vd in (None, 'has_a'):
            inner = pm.ns({}, **dict(sub, validator=vd))
            inner['via'] = 'create'
            mid = pm.ns({'range': inner})
            mid['implicit'] = True
            tree = pm.ns({'report': mid, 'a': pm.port(required=False)})
            for emissions in ([['report.range.x', 1]], [['report.range.x', 's']], [['report.range.a', 1]], [['report.range', {'a': 1}]], [['report.range', {'x': 's'}]], [['a', 1]], []):
                yield {'spec': tree, 'emissions': emissions, 'ret': 0}
    # a three-level tree under spec classes with another namespace separator
    deep = pm.ns({'r': pm.ns({'s': pm.ns({'e': pm.port(required=True, valid_type='int')}, valid_type='int'), 'x': pm.ns({}, valid_type='int', required=False)}), 'a': pm.port(required=False)})
    for sep in SEPARATORS:
        for emissions in ([['r.s.e', 1]], [['r.s.e', 's']], [['r.s.e', 1], ['r.x.a', 1]], [['r.s.e', 1], ['r.x.a', 's']], [['r.s.e', 1], ['r.x.n.m', 2]], [['r.s.e', 1], ['r.x.n.o.p.m', 2]], [['r.s.e', 1], ['r.x.n.o.p.m', 's']], [['r.s.e', 1], ['r.s.dyn', 3], ['a', 0]], [['a', 1]]):
            yield {'spec': deep, 'emissions': emissions, 'ret': 0, 'sep': sep}


@st.composite
def _port(draw):
    port = pm.port(
        required=draw(st.booleans()),
        valid_type=draw(st.sampled_from([None, None, 'int', 'str', 'num'])),
        validator=draw(st.sampled_from([None, None, 'nonneg', 'short', 'never', 'neg_empty', 'legacy_nonneg'])),
    )
    if port['valid_type'] in ('int', 'num') and draw(st.integers(0, 3)) == 0:
        port['validator'] = 'typed_nonneg'  # a validator that relies on the declared type
    return port


@st.composite
def _ns(draw, depth):
    ports = {}
    for name in draw(st.lists(st.sampled_from(['a', 'b', 'c']), max_size=3, unique=True)):
        if depth > 0 and draw(st.integers(0, 2)) == 0:
            ports[name] = draw(_ns(depth - 1))
        else:
            ports[name] = draw(_port())
    dynamic = draw(st.booleans())
    valid_type = draw(st.sampled_from([None, None, 'int', 'str']))
    is_dyn = dynamic or valid_type is not None
    return pm.ns(
        ports,
        required=draw(st.booleans()),
        dynamic=dynamic,
        valid_type=valid_type,
        validator=None if is_dyn else draw(st.sampled_from([None, None, 'has_a', 'small', 'legacy_has_a'])),
        populate_defaults=True,
    )


def _node(tree, path):
    for name in path.split('.'):
        tree = tree['ports'][name]
    return tree


def _paths(tree, prefix=''):
    for name, sub in tree['ports'].items():
        yield prefix + name, sub['kind']
        if sub['kind'] == 'ns':
            yield from _paths(sub, prefix + name + '.')


@st.composite
def _cases(draw, tier):
    tree = draw(_ns(2))
    declared = list(_paths(tree))
    n = draw(st.integers(0, 8))
    emissions = []
    leaves, spaces = set(), set(p for p, kind in declared if kind == 'ns')
    for _ in range(n):
        roll = draw(st.integers(0, 9))
        if declared and roll < 5:
            path, kind = draw(st.sampled_from(declared))
            if kind == 'ns':
                if draw(st.booleans()):
                    path = path + '.' + draw(st.sampled_from(['x', 'y']))
                    if draw(st.integers(0, 3)) == 0:
                        path = path + '.' + draw(st.sampled_from(['z', 'w']))
        else:
            parts = draw(st.lists(st.sampled_from(['x', 'y', 'a', 'nn']), min_size=1, max_size=3))
            path = '.'.join(parts)
        # never both x and x.y as leaves
        prefixes = ['.'.join(path.split('.')[:i]) for i in range(1, len(path.split('.')))]
        if any(p in leaves for p in prefixes) or path in spaces and False:
            continue
        if any(other.startswith(path + '.') for other in leaves):
            continue
        is_declared_ns = (path, 'ns') in declared
        if is_declared_ns:
            # a whole mapping emitted onto a declared namespace: the only emission into that subtree
            if any(other == path or other.startswith(path + '.') for other in leaves) or any(sp.startswith(path + '.') for sp in spaces if (sp, 'ns') not in declared):
                continue
            value = draw(st.sampled_from([{'x': 1}, {'a': 's'}, {'a': 1}, {'x': 'many'}, {'a': 1, 'b': 2, 'c': 3}, {'x': {'y': 1}}, {'b': {'a': 's'}}]))
            leaves.add(path)
            for p in prefixes:
                spaces.add(p)
            emissions.append([path, value])
            continue
        value = draw(st.sampled_from(VALUES))
        if isinstance(value, dict) and value:
            # a non-empty dict as dynamic value creates sub-paths: keep it out of namespaces used as path prefixes
            if any(other.startswith(path + '.') for other in leaves | spaces):
                continue
        leaves.add(path)
        for p in prefixes:
            spaces.add(p)
        emissions.append([path, value])
    case = {'spec': tree, 'emissions': emissions, 'ret': draw(st.sampled_from([0, 5, None, 'r']))}
    empties = [p.split('.') for p, kind in declared if kind == 'ns' and not _node(tree, p)['ports']]
    if empties and draw(st.integers(0, 2)) == 0:
        path = draw(st.sampled_from(empties))
        case['redeclare'] = [[path, dict(required=draw(st.booleans()), dynamic=draw(st.booleans()), valid_type=draw(st.sampled_from([None, 'int', 'str'])), validator=None, populate_defaults=True)]]
    if draw(st.integers(0, 3)) == 0:
        case['sep'] = draw(st.sampled_from(SEPARATORS))
    elif draw(st.integers(0, 4)) == 0:
        case['strict_ports'] = True
    if emissions and draw(st.integers(0, 3)) == 0:
        n_fin = draw(st.integers(0, min(2, len(emissions))))
        n_exit = draw(st.integers(0, min(2, len(emissions) - n_fin)))
        if n_fin or n_exit:
            case['late'] = {'on_finish': n_fin, 'on_exit_running': n_exit}
    return case


def strategy(tier):
    return _cases(tier)


def execute(case):
    viol = []

    def v(clause, detail):
        viol.append({'clause': clause, 'detail': detail})

    declared_tree = case['spec']
    tree = pm.refiled(pm.redeclared(declared_tree, case.get('redeclare')), case.get('refile'))
    emissions = case['emissions']
    late_items = {}
    in_step = list(emissions)
    for hook in ('on_finish', 'on_exit_running'):  # order of execution: on_exit_running first, then on_finish
        n = (case.get('late') or {}).get(hook, 0)
        if n:
            late_items[hook] = in_step[len(in_step) - n :]
            in_step = in_step[: len(in_step) - n]
    program = {
        'steps': [{'async': False, 'body': [['out', p, val] for p, val in in_step], 'ret': ['value', case.get('ret', 0)]}],
        'spec': {'outputs': declared_tree, 'redeclare': case.get('redeclare') or [], 'refile': [['output', path, new] for path, new in case.get('refile') or []]},
        'snapshot_outputs': True,
    }
    if late_items:
        # part of the class identity: emissions create namespaces in the (class-level) spec, which must not be shared
        # with a case that emits something else from its hooks
        program['late_emissions'] = late_items
    sep = case.get('sep')
    if sep:
        program['spec']['sep'] = sep
    if case.get('strict_ports') and not sep:
        # the spec class declares its output ports with an application-defined port class that refuses None
        program['spec']['strict_ports'] = True
        tree = pm.mark_strict(tree)
    run_case = {'program': program, 'schedule': []}
    model_tree = copy.deepcopy(tree)
    model_outputs = {}
    expected = []
    for path, value in emissions:
        try:
            pm.emit(model_tree, path, copy.deepcopy(value))
            cur = model_outputs
            parts = path.split('.')
            for part in parts[:-1]:
                cur = cur.setdefault(part, {})
            cur[parts[-1]] = value
            expected.append((True, copy.deepcopy(model_outputs)))
        except pm.Reject as why:
            expected.append((False, str(why)))
    try:
        pm.validate(model_tree, copy.deepcopy(model_outputs))
        model_ok = True
    except pm.Reject:
        model_ok = False

    late = case.get('late') or {}  # {'on_exit_running' | 'on_finish': n}: the last n emissions are made from that hook

    with Exec(run_case) as ex:
        if late:
            pending = {hook: list(items) for hook, items in late_items.items()}

            def from_hook(proc, hook, pos):
                # an application that emits (part of) its outputs from a lifecycle hook between the return of the last
                # step and the entry of FINISHED (on_exit_running, or on_finish before calling super())
                if pos == 'pre' and hook in pending and proc.pid == 1:
                    for path, val in pending.pop(hook):
                        proc._item(0, ['out', path.replace('.', sep) if False else path, val])

            ex.world.extra['hook_listener'] = from_hook
        ex.start()
        ex.settle(play=True, resumes=None, open_gates=True)
        trace = [e for e in ex.world.trace.get(1, []) if e['k'] == 'out']
        notes = [n[1] for n in ex.world.notifications.get(1, []) if n[0] == 'on_output_emitted']
        views = ex.views()
    n_rejected = 0
    accepted_pairs = []
    for i, ((path, value), (exp_ok, exp_val)) in enumerate(zip(emissions, expected)):
        if i >= len(trace):
            v('emission-missing', f'emission #{i} {path} was not executed (state {views["state"]})')
            break
        got = trace[i]
        if exp_ok:
            accepted_pairs.append([path, value])
            if not got['ok']:
                v('valid-output-rejected', f"out({path!r}, {value!r}) raised {got.get('err')} although the spec accepts it")
            elif got['outputs'] != exp_val:
                v('outputs-after-emission', f"after out({path!r}, {value!r}) outputs = {got['outputs']!r} expected {exp_val!r}")
        else:
            n_rejected += 1
            if got['ok']:
                v('invalid-output-stored', f'out({path!r}, {value!r}) was accepted although the spec rejects it ({exp_val})')
            else:
                if not got['unchanged']:
                    v('outputs-changed-by-rejected-emission', f'out({path!r}, {value!r}) raised but outputs changed to {got["outputs"]!r}')
                if exp_val in ('wrong type', 'validator', 'dynamic value of wrong type', 'undeclared port in a non-dynamic namespace') and got.get('err') != 'ValueError':
                    v('rejection-type', f"out({path!r}, {value!r}) raised {got.get('err')}, expected ValueError ({exp_val})")
    if not viol:
        if views['state'] != 'finished':
            v('final-state', f"{views['state']} {views['exception']}")
        else:
            if views['result'] != ['ok', case.get('ret', 0)]:
                v('result', f"result() {views['result']} expected {case.get('ret', 0)!r}")
            if views.get('future_result') != ['ok', model_outputs]:
                v('future-outputs', f"future().result() {views.get('future_result')} expected {model_outputs!r}")
            if views['outputs'] != model_outputs:
                v('outputs', f"outputs {views['outputs']!r} expected {model_outputs!r}")
            if views['is_successful'] != ['ok', model_ok] or views['successful'] != ['ok', model_ok]:
                v('successful', f"is_successful={views['is_successful']} successful()={views['successful']}, the model says {model_ok} for outputs {model_outputs!r}")
            for _pid, port, visible in ex.world.extra.get('emitted_visible', ()):
                if not visible:
                    v('announced-before-stored', f'the listeners were told about output {port!r} when it was not (yet) among the outputs of the process')
                    break
            got_pairs = [[n[0].replace(sep, '.') if sep else n[0], n[1]] for n in notes]
            if got_pairs != accepted_pairs:
                v('listener-emissions', f'listeners saw {got_pairs} expected {accepted_pairs}')
    classes = ['successful' if model_ok else 'unsuccessful', 'rejected:%d' % min(n_rejected, 3), 'emissions:%d' % min(len(emissions), 4)]
    if any('.' in p for p, _ in emissions):
        classes.append('nested-path')
    if sep:
        classes.append('custom-separator')
    if case.get('redeclare'):
        classes.append('namespace-redeclared')
    if case.get('late'):
        classes.append('emitted-from-hooks')
    if any((p, 'ns') in set(_paths(tree)) for p, _ in emissions):
        classes.append('mapping-onto-declared-namespace')
    return {
        'violations': viol,
        'nontrivial': bool(n_rejected or not model_ok),
        'classes': classes,
        'history': {'emissions': emissions, 'expected': [e[0] for e in expected], 'model_successful': model_ok, 'final': views['state']},
    }


def shrink_candidates(case):
    for i in range(len(case['emissions'])):
        cand = copy.deepcopy(case)
        del cand['emissions'][i]
        yield cand
    for name in list(case['spec']['ports']):
        cand = copy.deepcopy(case)
        del cand['spec']['ports'][name]
        yield cand


SIGNATURES = {}
