"""C11 -- only spec-conforming inputs create a process; defaults applied, inputs immutable."""

import copy
import itertools

from hypothesis import strategies as st

from ..exec import Exec, plain
from ..models import ports as pm
from ..programs import make_class

ID = 'C11'
LEVEL = 'exploration'
RULE = (
    'cases = (input spec tree of depth <=3 with <=4 ports per level over every attribute combination: required, '
    'valid_type, plain/callable default, port validator, namespace dynamic/valid_type/validator/populate_defaults; nested '
    'input dictionary derived from the spec and then perturbed: dropped, retyped, undeclared keys at any depth, nested '
    'dynamic dicts); a two-level spec family is enumerated completely against a fixed input family; the oracle is an '
    'independent reference model of acceptance and of the parsed form; non-trivial = a nested or dynamic namespace is '
    'involved and the input is rejected or a default is populated; distinct = SHA-1 of the case JSON'
)
ASSUMPTIONS = [
    'inputs are plain dicts and never contain the empty tuple (plumpy UNSPECIFIED sentinel); values given for a namespace are dicts, ints or None',
    'defaults are valid for their port by construction; validators are total functions',
    'namespace-level defaults are not generated',
]
BUDGET = {
    'quick': {'enum': ['two-level', 'dynamic'], 'hyp': 3000, 'shards': 8},
    'thorough': {'enum': ['two-level', 'two-level-wide', 'dynamic'], 'hyp': 120000, 'shards': 16},
}

PORT_SHAPES = [
    pm.port(required=r, valid_type=t, validator=v, default=d)
    for r in (True, False)
    for t, d_ok in ((None, 1), ('int', 1), ('str', 's'))
    for v in (None, 'nonneg')
    for d in (None, ['plain', d_ok], ['callable', d_ok])
]
NS_SHAPES = [
    dict(required=r, dynamic=dyn, valid_type=t, validator=v, populate_defaults=p)
    for r in (True, False)
    for dyn in (True, False)
    for t in (None, 'int')
    for v in (None, 'has_a')
    for p in (True, False)
]
SUB_INPUTS = ['<absent>', {}, {'q': 1}, {'q': 's'}, {'q': -1, 'extra': 2}, {'extra': 's'}, {'extra': {'deep': 1}}, {'a': 1}, 1]
P_INPUTS = ['<absent>', 1, 's', -2]


DYN_VALUES = [
    {'a': {'p': 1}, 'b': 's'},
    {'b': 's', 'a': {'p': 1}},
    {'a': {'p': 1}, 'b': 2},
    {'a': {'p': {'q': 1}}, 'b': {'r': 's'}},
    {'a': {'p': 's'}, 'b': 1},
    {'a': {}, 'b': 's'},
    {'a': 1, 'b': {'p': 1, 'q': 's'}},
    {'a': {'p': 1, 'q': {'r': 2}, 's': None}},
    {'a': {'p': 1}, 'b': {'q': 2}, 'c': 's'},
    {'a': {'p': 1}},
    {},
]


def _dynamic_cases():
    """Typed dynamic namespaces with nested dictionaries whose siblings may be of the wrong type, at two levels."""
    for vt in ('int', 'str', None):
        for req in (True, False):
            for value in DYN_VALUES:
                top = pm.ns({}, required=req, dynamic=True, valid_type=vt)
                yield {'spec': top, 'inputs': copy.deepcopy(value)}
                sub = pm.ns({'sub': pm.ns({'q': pm.port(required=False, valid_type='int')}, required=req, dynamic=True, valid_type=vt)})
                yield {'spec': sub, 'inputs': {'sub': copy.deepcopy(value)}}
                yield {'spec': sub, 'inputs': {'sub': dict(copy.deepcopy(value), q=1)}}


def _validator_cases():
    """Validators that reject with an empty message, and validators with the deprecated one-argument signature."""
    for pv in ('neg_empty', 'legacy_nonneg'):
        for nv in (None, 'legacy_has_a'):
            for default in (None, ['plain', 1], ['callable', 2]):
                tree = pm.ns({'p': pm.port(required=True, validator=pv, default=default), 'sub': pm.ns({'q': pm.port(required=False, validator=pv)}, validator=nv, required=False)})
                for pval, sval in itertools.product(['<absent>', 1, -1, 's'], ['<absent>', {}, {'q': 1}, {'q': -2}, {'q': 1, 'a': 0}]):
                    inputs = {}
                    if pval != '<absent>':
                        inputs['p'] = pval
                    if sval != '<absent>':
                        inputs['sub'] = sval
                    yield {'spec': tree, 'inputs': inputs}


def _created_cases():
    """Namespaces declared with a nested name through PortNamespace.create_port_namespace(): the options belong to the
    terminal namespace, the parents that did not exist take the constructor defaults."""
    values = ['<absent>', {}, {'x': 1}, {'x': 's'}, {'x': -1}, {'a': 1}, {'a': 1, 'x': 2}, {'q': 1}, {'q': 1, 'a': 0}, 1]
    for nshape in NS_SHAPES:
        for depth in (2, 3):
            inner = pm.ns({'q': pm.port(required=False, valid_type='int', default=['plain', 5])}, **nshape)
            inner['via'] = 'create'
            tree = inner
            for name in ('lim', 'mid')[: depth - 1]:
                tree = pm.ns({name: tree})
                tree['implicit'] = True
            top = pm.ns({'s': tree, 'p': pm.port(required=False)})
            for value in values:
                inputs = {}
                if value != '<absent>':
                    nested = value
                    for name in ('lim', 'mid')[: depth - 1]:
                        nested = {name: nested}
                    inputs['s'] = nested
                yield {'spec': top, 'inputs': inputs}


def _typed_validator_cases():
    """A validator that relies on the declared type of its port is only handed values of that type."""
    for req in (True, False):
        for default in (None, ['plain', 3]):
            tree = pm.ns({'p': pm.port(required=req, valid_type='int', validator='typed_nonneg', default=default), 'sub': pm.ns({'q': pm.port(required=False, valid_type='num', validator='typed_nonneg')}, required=False)})
            for pval, sval in itertools.product(['<absent>', 1, -1, 's', None, [1]], ['<absent>', {}, {'q': 1.5}, {'q': -2}, {'q': 's'}, {'q': None}]):
                inputs = {}
                if pval != '<absent>':
                    inputs['p'] = pval
                if sval != '<absent>':
                    inputs['sub'] = sval
                yield {'spec': tree, 'inputs': inputs}


def _falsy_default_cases():
    """Defaults that are falsy (0, False, '', empty containers, 0.0) are defaults: the port is optional, also where the
    default is not populated (namespace with populate_defaults=False that the caller leaves out)."""
    for d in (0, False, '', [], {}, 0.0, 5, 'x'):
        for mode in ('plain', 'callable'):
            for lazy_req in (True, False):
                for populate in (False, True):
                    tree = pm.ns({'lazy': pm.ns({'value': pm.port(required=True, default=[mode, d]), 'other': pm.port(required=False)}, populate_defaults=populate, required=lazy_req), 'top': pm.port(required=True, default=[mode, d])})
                    for inputs in ({}, {'lazy': {}}, {'lazy': {'other': 1}}, {'lazy': {'value': 7}}, {'top': 3}):
                        yield {'spec': tree, 'inputs': copy.deepcopy(inputs)}


def _refiled_cases():
    """Ports re-filed under another key of their namespace after the declaration."""
    for req in (True, False):
        for dyn in (True, False):
            tree = pm.ns({'x': pm.port(required=req, valid_type='int'), 'y': pm.port(required=False, valid_type='str', default=['plain', 's']), 'sub': pm.ns({'q': pm.port(required=req, valid_type='int')}, dynamic=dyn, valid_type='int' if dyn else None)}, dynamic=dyn)
            for refile in ([[['x'], 'base_x']], [[['sub', 'q'], 'renamed']], [[['y'], 'why'], [['x'], 'ex']]):
                for inputs in ({}, {'x': 1}, {'base_x': 1}, {'base_x': 's'}, {'ex': 2, 'why': 't'}, {'ex': 2, 'y': 3}, {'x': 1, 'sub': {'q': 1}}, {'x': 1, 'sub': {'renamed': 1}}, {'x': 1, 'sub': {'renamed': 's'}}, {'x': 1, 'sub': {'renamed': 1, 'q': 's'}}):
                    yield {'spec': tree, 'inputs': copy.deepcopy(inputs), 'refile': refile}


def _strict_port_cases():
    """A spec class with its own input port class that refuses None, at the top and in nested namespaces."""
    for req in (True, False):
        for dyn in (True, False):
            tree = pm.ns({'p': pm.port(required=req), 'd': pm.port(required=False, default=['plain', 1]), 'sub': pm.ns({'q': pm.port(required=False), 'deep': pm.ns({'r': pm.port(required=False)})}, dynamic=dyn)}, dynamic=dyn)
            for inputs in ({'p': 1}, {'p': None}, {'p': 1, 'd': None}, {'p': 1, 'sub': {'q': None}}, {'p': 1, 'sub': {'q': 2, 'deep': {'r': None}}}, {'p': 0, 'sub': {'q': 2, 'deep': {'r': 3}}}, {'p': 1, 'extra': None}, {'p': 1, 'sub': {'extra': None}}, {'p': 1, 'sub': {'extra': {'e': 1}}}):
                for strict in (True, False):
                    yield {'spec': tree, 'inputs': copy.deepcopy(inputs), 'strict_ports': strict}


def enumerate_cases(tier, scope):
    if scope == 'dynamic':
        yield from _strict_port_cases()
        yield from _refiled_cases()
        yield from _typed_validator_cases()
        yield from _falsy_default_cases()
        yield from _dynamic_cases()
        yield from _validator_cases()
        yield from _created_cases()
        return
    pshapes = PORT_SHAPES if scope == 'two-level-wide' else PORT_SHAPES[::3]
    qshapes = PORT_SHAPES[::2] if scope == 'two-level-wide' else PORT_SHAPES[1::5]
    for pshape in pshapes:
        for nshape in NS_SHAPES:
            for qshape in qshapes:
                tree = pm.ns({'p': pshape, 'sub': pm.ns({'q': qshape}, **nshape)})
                for pval, sval in itertools.product(P_INPUTS, SUB_INPUTS):
                    inputs = {}
                    if pval != '<absent>':
                        inputs['p'] = pval
                    if sval != '<absent>':
                        inputs['sub'] = sval
                    yield {'spec': tree, 'inputs': inputs}


# ---------------------------------------------------------------------------------------------
LEAF_VALUES = st.one_of(st.integers(-2, 3), st.sampled_from(['s', '', 'long']), st.none(), st.booleans(), st.floats(0, 1, allow_nan=False), st.lists(st.integers(0, 1), max_size=2))
NAMES = ['a', 'b', 'c', 'd']


def _valid_value(draw, tname, validator):
    if tname == 'int':
        return draw(st.integers(0, 3))
    if tname == 'str':
        return draw(st.sampled_from(['s', '']))
    if tname == 'num':
        return draw(st.one_of(st.integers(0, 3), st.floats(0, 2, allow_nan=False)))
    if tname == 'dict':
        return {}
    return draw(st.one_of(st.integers(0, 3), st.sampled_from(['s']), st.none()))


@st.composite
def _port(draw):
    tname = draw(st.sampled_from([None, None, 'int', 'str', 'num']))
    validator = draw(st.sampled_from([None, None, 'nonneg', 'short', 'never', 'always', 'neg_empty', 'legacy_nonneg']))
    default = None
    mode = draw(st.sampled_from([None, None, 'plain', 'callable', 'factory', 'partial']))
    if mode is not None and validator != 'never':
        default = [mode, _valid_value(draw, tname, validator)]
    return pm.port(required=draw(st.booleans()), valid_type=tname, validator=validator, default=default)


@st.composite
def _ns(draw, depth):
    ports = {}
    for name in draw(st.lists(st.sampled_from(NAMES), max_size=4, unique=True)):
        if depth > 0 and draw(st.integers(0, 2)) == 0:
            ports[name] = draw(_ns(depth - 1))
        else:
            ports[name] = draw(_port())
    return pm.ns(
        ports,
        required=draw(st.booleans()),
        dynamic=draw(st.booleans()),
        valid_type=draw(st.sampled_from([None, None, None, 'int', 'str', 'dict'])),
        validator=draw(st.sampled_from([None, None, None, 'has_a', 'small', 'never', 'legacy_has_a'])),
        populate_defaults=draw(st.booleans()),
    )


@st.composite
def _inputs_for(draw, tree, depth=0):
    """Mostly conforming inputs, then perturbed."""
    out = {}
    for name, sub in tree['ports'].items():
        roll = draw(st.integers(0, 9))
        if sub['kind'] == 'ns':
            if roll < 6:
                out[name] = draw(_inputs_for(sub, depth + 1))
            elif roll == 6:
                out[name] = draw(st.sampled_from([1, None]))
            elif roll == 7:
                out[name] = {}
        else:
            if roll < 6:
                out[name] = _valid_value(draw, sub['valid_type'], sub['validator'])
            elif roll < 8:
                out[name] = draw(LEAF_VALUES)
    extra = draw(st.integers(0, 5))
    if extra == 0 or (extra == 1 and pm.effective_dynamic(tree)):
        key = draw(st.sampled_from(['x', 'y', 'a']))
        if key not in tree['ports']:
            out[key] = draw(st.one_of(LEAF_VALUES, st.dictionaries(st.sampled_from(['m', 'n']), st.one_of(LEAF_VALUES, st.dictionaries(st.just('o'), LEAF_VALUES, max_size=1)), max_size=2)))
    return out


def _port_paths(tree, path=()):
    for name, sub in tree['ports'].items():
        if sub['kind'] == 'ns':
            yield from _port_paths(sub, path + (name,))
        else:
            yield list(path + (name,)), sub


@st.composite
def _adjustments(draw, tree):
    """The spec is adjusted after the declaration through the port setters (what a subclass' define does)."""
    ports = list(_port_paths(tree))
    out = []
    for path, port in ports:
        if draw(st.integers(0, 1)) == 0:
            continue
        choices = ['valid_type', 'validator']
        if port.get('default') is not None:
            choices += ['default', 'default']  # only the value of an existing default changes (required stays as it is)
        attr = draw(st.sampled_from(choices))
        if attr == 'default':
            out.append([path, 'default', [port['default'][0] if port['default'][0] != 'counter' else 'plain', draw(LEAF_VALUES)]])
        elif attr == 'valid_type':
            out.append([path, 'valid_type', draw(st.sampled_from(['int', 'str', 'num']))])
        else:
            out.append([path, 'validator', draw(st.sampled_from(['nonneg', 'short', 'never', 'always']))])
    return out


@st.composite
def _cases(draw, tier):
    tree = draw(_ns(2 if tier == 'quick' else 3))
    inputs = draw(_inputs_for(tree))
    if draw(st.integers(0, 9)) == 0:
        inputs = None
    case = {'spec': tree, 'inputs': inputs}
    if draw(st.integers(0, 3)) == 0:
        case['adjust'] = draw(_adjustments(tree))
    elif draw(st.integers(0, 2)) == 0:
        case['strict_ports'] = True
    return case


def strategy(tier):
    return _cases(tier)


# ---------------------------------------------------------------------------------------------
def _leaves(value, path=()):
    if isinstance(value, dict):
        for key, sub in value.items():
            yield from _leaves(sub, path + (key,))
    else:
        yield path, value


def _frozen_levels(tree, inputs_view, path=()):
    """Yield (path, mapping) for every declared namespace level present in the parsed inputs."""
    yield path, inputs_view
    for name, sub in tree['ports'].items():
        if sub['kind'] == 'ns' and name in inputs_view:
            yield from _frozen_levels(sub, inputs_view[name], path + (name,))


def _no_tuples(value):
    if isinstance(value, float):
        return True
    return True


def _none_default(tree):
    for sub in tree['ports'].values():
        if sub['kind'] == 'ns':
            if _none_default(sub):
                return True
        elif sub.get('default') is not None and sub['default'][1] is None:
            return True
    return False


def execute(case):
    viol = []
    reloaded = False
    load_note = None

    def v(clause, detail):
        viol.append({'clause': clause, 'detail': detail})

    declared = case['spec']
    tree = pm.refiled(pm.adjusted(declared, case.get('adjust')), case.get('refile'))
    given = case['inputs']
    # (defaults are valid for their port by construction: a tree with a None default is not declared under that class)
    strict = bool(case.get('strict_ports')) and not case.get('adjust') and not case.get('refile') and not _none_default(declared)
    if strict:
        # the spec class of the process brings its own input port class (ProcessSpec.INPUT_PORT_TYPE) and namespace class,
        # both refusing None: every declared port is of that class
        tree = pm.mark_strict(tree)
    # the model decides first
    accepted, parsed = pm.accepts_inputs(tree, copy.deepcopy(given) if given is not None else {})
    program = {'steps': [{'async': False, 'body': [], 'ret': ['value', 0]}], 'spec': {'inputs': declared, 'adjust': case.get('adjust') or [], 'refile': [['input', path, new] for path, new in case.get('refile') or []]}}
    if strict:
        program['spec']['strict_ports'] = True
    cls = make_class(program)
    caller = copy.deepcopy(given)
    snapshot = copy.deepcopy(caller)
    leaves_before = {p: id(val) for p, val in _leaves(caller)} if caller is not None else {}
    proc = None
    error = None
    with Exec({'program': program}, attach_listener=False) as ex:
        with ex.loop.as_running():
            try:
                proc = cls(inputs=caller, pid=1, loop=ex.loop)
            except Exception as exc:  # noqa: BLE001
                error = exc
        if accepted and error is not None:
            v('rejected-conforming-inputs', f'constructor raised {type(error).__name__}: {str(error)[:160]}')
        elif not accepted and error is None:
            v('accepted-nonconforming-inputs', f'constructed with inputs {given!r}')
        if proc is not None and accepted:
            got = plain(proc.inputs)
            if got != parsed:
                v('parsed-inputs', f'inputs = {got!r} expected {parsed!r}')
            raw = plain(proc.raw_inputs) if proc.raw_inputs is not None else None
            if raw != given:
                v('raw-inputs', f'raw_inputs = {raw!r} given {given!r}')
            # read-only at every declared namespace level
            for path, level in _frozen_levels(tree, proc.inputs):
                try:
                    level['__probe__'] = 1
                    v('inputs-mutable', f'item assignment succeeded at level {".".join(path) or "<top>"}')
                    break
                except TypeError:
                    pass
                except Exception as exc:  # noqa: BLE001
                    v('inputs-mutable', f'unexpected {type(exc).__name__} at level {".".join(path)}')
                    break
        if proc is not None and accepted and not viol:
            # the same holds for the process recreated from a saved state
            from plumpy import persistence

            try:
                with ex.loop.as_running():
                    loaded = persistence.Bundle(proc).unbundle(persistence.LoadSaveContext(loop=ex.loop))
            except Exception as exc:  # noqa: BLE001 - whether a process can be saved is C07's business
                loaded = None
                load_note = type(exc).__name__
            if loaded is not None:
                reloaded = True
                got = plain(loaded.inputs)
                if got != parsed:
                    v('reloaded-inputs', f'inputs of the reloaded process = {got!r} expected {parsed!r}')
                for path, level in _frozen_levels(tree, loaded.inputs):
                    try:
                        level['__probe__'] = 1
                        v('reloaded-inputs-mutable', f'item assignment succeeded at level {".".join(path) or "<top>"} of the reloaded process')
                        break
                    except TypeError:
                        pass
                    except Exception as exc:  # noqa: BLE001
                        v('reloaded-inputs-mutable', f'unexpected {type(exc).__name__} at level {".".join(path)}')
                        break
        # the caller's dictionary stays exactly as given
        if proc is not None and accepted and not viol and caller is not None:
            # ... and the process keeps what it was given when the caller goes on using its dictionary
            # (top level only: nested mappings of raw_inputs are the caller's own objects on purpose, raw means raw)
            caller['__later__'] = 1
            raw = plain(proc.raw_inputs) if proc.raw_inputs is not None else None
            if raw != given:
                v('raw-inputs-alias-caller', f'after the caller added a key to its dictionary raw_inputs = {raw!r}, given was {given!r}')
            if plain(proc.inputs) != parsed:
                v('inputs-alias-caller', f'after the caller added a key to its dictionary inputs = {plain(proc.inputs)!r} expected {parsed!r}')
            caller.pop('__later__', None)
        if caller != snapshot:
            v('caller-dict-changed', f'{caller!r} was {snapshot!r}')
        elif caller is not None:
            after = {p: id(val) for p, val in _leaves(caller)}
            if after != leaves_before:
                v('caller-leaves-replaced', 'leaf objects of the caller dictionary were replaced')

    nested = any(sub['kind'] == 'ns' for sub in tree['ports'].values()) or pm.effective_dynamic(tree)
    populated = accepted and parsed != (given or {})
    classes = ['accepted' if accepted else 'rejected']
    if nested:
        classes.append('nested-or-dynamic')
    if populated:
        classes.append('default-populated')
    if given is None:
        classes.append('inputs-none')
    if reloaded:
        classes.append('reloaded')
    if load_note:
        classes.append('not-savable:' + load_note)
    if case.get('adjust'):
        classes.append('spec-adjusted-after-declaration')
    if strict:
        classes.append('spec-class-with-own-input-port-class')
    return {
        'violations': viol,
        'nontrivial': bool(nested and (not accepted or populated)),
        'classes': classes,
        'history': {'accepted': accepted, 'parsed': parsed if accepted else None},
    }


def shrink_candidates(case):
    tree = case['spec']
    for name in list(tree['ports']):
        cand = copy.deepcopy(case)
        del cand['spec']['ports'][name]
        if isinstance(cand['inputs'], dict):
            cand['inputs'].pop(name, None)
        yield cand
    if isinstance(case['inputs'], dict):
        for key in list(case['inputs']):
            cand = copy.deepcopy(case)
            del cand['inputs'][key]
            yield cand
    for name, sub in tree['ports'].items():
        if sub['kind'] == 'ns':
            for inner in list(sub['ports']):
                cand = copy.deepcopy(case)
                del cand['spec']['ports'][name]['ports'][inner]
                yield cand
    for attr, val in (('validator', None), ('valid_type', None), ('dynamic', False), ('required', True), ('populate_defaults', True)):
        if tree[attr] != val:
            cand = copy.deepcopy(case)
            cand['spec'][attr] = val
            yield cand


SIGNATURES = {}
