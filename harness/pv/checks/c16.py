"""C16 -- remote control equals direct control; each transition announced once, in order."""

import asyncio
import concurrent.futures

import kiwipy
from aio_pika.exceptions import ChannelInvalidStateError, ConnectionClosed
from hypothesis import strategies as st
from plumpy import communications, process_comms

from .. import gen
from ..exec import Exec
from ..programs import NOVALUE

ID = 'C16'
LEVEL = 'exploration'
RULE = (
    'cases = (program; sequence of <=4 control messages: RPC pause/play/kill/status through RemoteProcessThreadController '
    'or RemoteProcessController, or broadcast pause_all/play_all/kill_all; communicator = bare in-process '
    'LocalCommunicator or LoopCommunicator around it; optionally the i-th state-change broadcast fails with '
    'ConnectionClosed / ChannelInvalidStateError / kiwipy.TimeoutError).  Mode "quiescent": every message is delivered '
    'when the loop is quiescent and a twin process receives the equivalent direct call at that point; mode "in-step": '
    'messages at arbitrary tick placements, the reply is compared with the recorded return value of the very '
    'pause/play/kill call the handler made.  non-trivial = >=1 message reached a live process that was waiting, paused or '
    'inside a step; distinct = SHA-1 of the case JSON'
)
ASSUMPTIONS = [
    'kiwipy.LocalCommunicator stands in for RabbitMQ: messages are delivered synchronously to the subscriber, cross-thread hand-offs become loop callbacks',
    '_schedule_rpc deliberately re-raises handler errors as RuntimeError(...) from exc: error replies are compared through __cause__',
    'a message sent after termination is unroutable while the twin call is a no-op: only the rest of the run is compared there',
]
BUDGET = {
    'quick': {'enum': ['q2', 'faults'], 'hyp': 1500, 'shards': 8},
    'thorough': {'enum': ['q2', 'q3', 'faults', 'instep2'], 'hyp': 60000, 'shards': 16},
}
MESSAGES = [['rpc', 'pause', 'pm'], ['rpc', 'play', None], ['rpc', 'kill', 'km'], ['rpc', 'status', None], ['bcast', 'pause', 'bp'], ['bcast', 'play', None], ['bcast', 'kill', 'bk']]
# an empty text is a text (it blanks the status), not the absence of one
EMPTY_TEXT = [['rpc', 'pause', ''], ['bcast', 'pause', ''], ['rpc', 'kill', ''], ['bcast', 'kill', '']]
FAULTS = {'closed': ConnectionClosed, 'channel': ChannelInvalidStateError, 'timeout': kiwipy.TimeoutError}
PROG_NAMES = ('wait1', 'waitwait', 'chain', 'gated', 'async2')


class FaultyComm(kiwipy.LocalCommunicator):
    """In-process communicator that records state-change broadcasts and can fail the i-th one."""

    def __init__(self, fail=None, sub_fail=None):
        super().__init__()
        self.fail = fail
        self.sub_fail = sub_fail  # 'rpc' | 'bcast': that subscription of the process times out (a slow broker)
        self.state_broadcasts = []  # (sender, subject)
        self.n_state = 0
        self.failed = []

    def add_rpc_subscriber(self, subscriber, identifier=None):
        if self.sub_fail == 'rpc':
            self.sub_fail = None
            raise kiwipy.TimeoutError('add_rpc_subscriber timed out')
        return super().add_rpc_subscriber(subscriber, identifier)

    def add_broadcast_subscriber(self, subscriber, identifier=None):
        if self.sub_fail == 'bcast':
            self.sub_fail = None
            raise kiwipy.TimeoutError('add_broadcast_subscriber timed out')
        return super().add_broadcast_subscriber(subscriber, identifier)

    def broadcast_send(self, body, sender=None, subject=None, correlation_id=None):
        if isinstance(subject, str) and subject.startswith('state_changed'):
            self.n_state += 1
            if self.fail is not None and self.fail['index'] <= self.n_state < self.fail['index'] + self.fail.get('count', 1):
                self.failed.append(subject)
                raise FAULTS[self.fail['exc']]()
            self.state_broadcasts.append((sender, subject))
        return super().broadcast_send(body, sender=sender, subject=subject, correlation_id=correlation_id)


def enumerate_cases(tier, scope):
    cat = gen.CATALOGUE
    if scope in ('q2', 'q3'):
        k = int(scope[1])
        import itertools

        for name in PROG_NAMES:
            for comm in ('bare', 'loop'):
                for kk in range(1, k + 1):
                    for msgs in itertools.product(MESSAGES, repeat=kk):
                        if kk == 3 and comm == 'loop' and name not in ('wait1', 'gated'):
                            continue
                        for ctl in ('thread', 'coro'):
                            sched = [['settle']]
                            for m in msgs:
                                sched.append(list(m))
                                sched.append(['settle'])
                            yield {'program': cat[name], 'schedule': sched, 'comm': comm, 'mode': 'quiescent', 'controller': ctl}
    elif scope == 'faults':
        for name in PROG_NAMES + ('selfkill', 'failing'):
            for comm in ('bare', 'loop'):
                for exc in FAULTS:
                    for index in range(1, 7):
                        yield {'program': cat[name], 'schedule': [['settle'], ['rpc', 'pause', 'p'], ['settle'], ['rpc', 'play', None], ['settle']], 'comm': comm, 'mode': 'quiescent', 'controller': 'thread', 'fail': {'index': index, 'exc': exc}}
                        if index <= 4:
                            # a broker that stays unavailable: consecutive announcements (all from here on) fail
                            for count in (2, 99):
                                yield {'program': cat[name], 'schedule': [['settle'], ['rpc', 'pause', 'p'], ['settle'], ['rpc', 'play', None], ['settle']], 'comm': comm, 'mode': 'quiescent', 'controller': 'thread', 'fail': {'index': index, 'exc': exc, 'count': count}}
        # empty message texts, and a user cleanup that raises at termination (the subscriptions must be released all the same)
        for name in ('wait1', 'chain', 'gated'):
            for comm in ('bare', 'loop'):
                for first in EMPTY_TEXT:
                    for second in (['rpc', 'play', None], ['rpc', 'status', None], ['rpc', 'kill', 'km']):
                        for raising in (None, 0, 2):
                            sched = [['settle'], ['rpc', 'pause', 'pm'], ['settle'], ['rpc', 'play', None], ['settle'], list(first), ['settle'], list(second), ['settle']]
                            yield {'program': cat[name], 'schedule': sched, 'comm': comm, 'mode': 'quiescent', 'controller': 'thread', 'cleanup_raises': raising}
        # a process that launches a child: the child is reachable through the same communicator and announces itself
        child_prog = {'steps': [gen.S([['yield'], ['out', 'x', 1]], ['value', 1], True)]}
        launcher = {'steps': [gen.S([['launch', child_prog, 7], ['yield'], ['yield']], ['wait', 1, None, None], True), gen.S([], ['value', 2])]}
        for comm in ('bare', 'loop'):
            for msgs in ([], [['rpc', 'pause', 'pm'], ['rpc', 'play', None]], [['rpc', 'kill', 'km']]):
                sched = [['settle']]
                for m in msgs:
                    sched += [list(m), ['settle']]
                yield {'program': launcher, 'schedule': sched, 'comm': comm, 'mode': 'quiescent', 'controller': 'thread'}
        # a work chain (two steps, the first one waits for a future) given the communicator at construction
        wc_case = {'outline': [['step', 'a'], ['step', 'b']], 'behaviour': {'rets': {'a': [{'__tc__': {'k': ['fut', 'f1']}}], 'b': [5]}, 'preds': {}, 'bodies': {'b': [['out', 'x', 1]]}}}
        for comm in ('bare', 'loop'):
            for msgs in ([], [['rpc', 'pause', 'pm'], ['rpc', 'play', None]], [['rpc', 'kill', 'km']], [['bcast', 'pause', 'bp'], ['rpc', 'status', None], ['bcast', 'play', None]], [['rpc', 'status', None]]):
                sched = [['settle']]
                for m in msgs:
                    sched += [list(m), ['settle']]
                yield dict(wc_case, schedule=sched, comm=comm, mode='quiescent', controller='thread')
        # a listener that close()s the process from its termination notification (the last transition must still be
        # announced), and a process class whose kill() answers with a future resolving to the library's answer
        for name in ('wait1', 'chain', 'gated', 'async2'):
            for comm in ('bare', 'loop'):
                for msgs in ([], [['rpc', 'kill', 'km']], [['rpc', 'pause', 'pm'], ['rpc', 'kill', 'km']], [['bcast', 'kill', 'bk']], [['rpc', 'pause', 'p'], ['rpc', 'play', None]]):
                    sched = [['settle']]
                    for m in msgs:
                        sched += [list(m), ['settle']]
                    yield {'program': cat[name], 'schedule': sched, 'comm': comm, 'mode': 'quiescent', 'controller': 'thread', 'closing_listener': True}
                    yield {'program': cat[name], 'schedule': sched, 'comm': comm, 'mode': 'quiescent', 'controller': 'thread', 'wrapped_kill': True}
                    if msgs:
                        yield {'program': cat[name], 'schedule': [list(m) for m in msgs], 'comm': comm, 'mode': 'instep', 'controller': 'thread', 'wrapped_kill': True}
        # one of the two subscriptions of the process times out: the other channel keeps working
        import itertools

        for name in ('wait1', 'gated', 'waitwait'):
            for comm in ('bare', 'loop'):
                for sub_fail, chan in (('rpc', 'bcast'), ('bcast', 'rpc')):
                    for msgs in itertools.product([m for m in MESSAGES if m[0] == chan], repeat=2):
                        sched = [['settle']]
                        for m in msgs:
                            sched += [list(m), ['settle']]
                        yield {'program': cat[name], 'schedule': sched, 'comm': comm, 'mode': 'quiescent', 'controller': 'thread', 'sub_fail': sub_fail}
    elif scope == 'instep2':
        for name in ('async2', 'chain', 'waitwait'):
            for comm in ('bare', 'loop'):
                for sched in gen.schedules([m for m in MESSAGES if m[0] == 'rpc'], 2, 4):
                    yield {'program': cat[name], 'schedule': sched, 'comm': comm, 'mode': 'instep', 'controller': 'thread'}
    else:
        raise ValueError(scope)


@st.composite
def _cases(draw, tier):
    prog = draw(gen.programs(max_steps=4, self_calls=(), soon=False, endings=('value', 'unsuccessful', 'raise', 'kill')))
    mode = draw(st.sampled_from(['quiescent', 'quiescent', 'instep']))
    n = draw(st.integers(1, 4))
    sched = []
    for _ in range(n):
        if mode == 'quiescent':
            sched.append(['settle'])
        else:
            gap = draw(st.integers(0, 4))
            if gap:
                sched.append(['tick', gap])
        msg = list(draw(st.sampled_from(MESSAGES + EMPTY_TEXT[:2])))
        if mode == 'instep' and msg[0] == 'bcast':
            msg[0] = 'rpc'
        sched.append(msg)
        if mode == 'quiescent':
            sched.append(['settle'])
        if draw(st.integers(0, 3)) == 0:
            sched.append(['resume', draw(st.sampled_from([1, 'v', NOVALUE]))])
            if mode == 'quiescent':
                sched.append(['settle'])
    case = {'program': prog, 'schedule': sched, 'comm': draw(st.sampled_from(['bare', 'loop'])), 'mode': mode, 'controller': draw(st.sampled_from(['thread', 'coro']))}
    if draw(st.integers(0, 3)) == 0:
        case['cleanup_raises'] = draw(st.integers(0, 2))
    if draw(st.integers(0, 4)) == 0:
        case['closing_listener'] = True
    if draw(st.integers(0, 4)) == 0:
        case['wrapped_kill'] = True
    if draw(st.integers(0, 3)) == 0:
        case['fail'] = {'index': draw(st.integers(1, 6)), 'exc': draw(st.sampled_from(list(FAULTS))), 'count': draw(st.sampled_from([1, 1, 2, 3, 99]))}
    if mode == 'quiescent' and draw(st.integers(0, 4)) == 0:
        case['sub_fail'] = draw(st.sampled_from(['rpc', 'bcast']))
        chan = 'bcast' if case['sub_fail'] == 'rpc' else 'rpc'
        for ev in sched:
            if ev[0] in ('rpc', 'bcast') and ev[0] != chan:
                ev[0] = chan
                if chan == 'bcast' and ev[1] == 'status':
                    ev[1] = 'pause'
    return case


def strategy(tier):
    return _cases(tier)


# ---------------------------------------------------------------------------------------------
def _unwrap(value, loop_drain):
    """Follow futures (kiwi, concurrent, asyncio) to the final outcome: ('ok', v) | ('raise', exc) | ('cancelled',) | ('pending',)"""
    for _ in range(8):
        if isinstance(value, (concurrent.futures.Future, asyncio.Future)):
            if not value.done():
                loop_drain()
                if not value.done():
                    return ('pending',)
            if value.cancelled():
                return ('cancelled',)
            exc = value.exception()
            if exc is not None:
                return ('raise', exc)
            value = value.result()
            continue
        return ('ok', value)
    return ('pending',)


def _loop_future_in_reply(value, loop_drain):
    """A reply travels to the controller through communicator-side (concurrent / kiwi) futures, which may nest; an
    asyncio future of the process's loop among them means that an intermediate object was sent instead of the outcome.
    The harness's own controller coroutine task is the outermost level and does not count."""
    first = True
    for _ in range(8):
        if isinstance(value, asyncio.Future) and not first:
            return type(value).__name__
        if isinstance(value, (concurrent.futures.Future, asyncio.Future)):
            first = False
            if not value.done():
                loop_drain()
                if not value.done():
                    return None
            if value.cancelled() or value.exception() is not None:
                return None
            value = value.result()
            continue
        return None
    return None


def _snap(ex):
    p = ex.proc
    return (p.state.value, p.paused, p.status, str(sorted(p.outputs.items())))


class Side:
    """One process with its executor; A has a communicator, B is the directly controlled twin."""

    def __init__(self, case, remote):
        self.case = case
        self.remote = remote
        program = case.get('program')
        if case.get('wrapped_kill'):
            program = dict(program, wrapped_kill=True)  # kill() of the class answers with a future that resolves to the library's answer
        closing = [{'on': on, 'occ': 1, 'do': ['close', None]} for on in ('on_process_finished', 'on_process_killed', 'on_process_excepted')] if case.get('closing_listener') else []
        run_case = {'program': program, 'pid': 'P1', 'cleanup_raises': case.get('cleanup_raises'), 'listener': closing}
        if 'outline' in case:
            # a work chain under remote control (same protocol, its own constructor)
            run_case = {'outline': case['outline'], 'behaviour': case['behaviour'], 'pid': 'P1', 'cleanup_raises': case.get('cleanup_raises'), 'listener': closing}
        self.ex = Exec(run_case, attach_listener=bool(closing))
        self.snaps = []
        self.replies = []
        self.recorded = []  # return values of the process's own pause/play/kill (in-step mode)
        self.recording = True

    def __enter__(self):
        self.ex.__enter__()
        loop = self.ex.loop
        if self.remote:
            self.inner = FaultyComm(self.case.get('fail'), self.case.get('sub_fail'))
            self.comm = communications.LoopCommunicator(self.inner, loop) if self.case['comm'] == 'loop' else self.inner
            self.ex.communicator = self.comm
            self.thread_ctl = process_comms.RemoteProcessThreadController(self.comm)
            self.coro_ctl = process_comms.RemoteProcessController(self.comm)
        self.started = self.ex.start()
        if self.started and self.case['mode'] == 'instep' and self.remote:
            self._wrap_methods()
        if self.started:
            self.note()
        return self

    def __exit__(self, *exc):
        return self.ex.__exit__(*exc)

    def _wrap_methods(self):
        proc = self.ex.proc
        for name in ('pause', 'play', 'kill'):
            original = getattr(proc, name)

            def wrapper(*args, _orig=original, _name=name, **kwargs):
                if not self.recording:
                    return _orig(*args, **kwargs)
                try:
                    ret = _orig(*args, **kwargs)
                    self.recorded.append((_name, 'ok', ret))
                    return ret
                except Exception as exc:
                    self.recorded.append((_name, 'raise', exc))
                    raise

            setattr(proc, name, wrapper)

    def note(self):
        snap = _snap(self.ex)
        if not self.snaps or self.snaps[-1] != snap:
            self.snaps.append(snap)

    def drain(self):
        while self.ex.loop.step_one():
            self.ex.sample('tick')
            self.note()

    def tick(self, n):
        for _ in range(n):
            if not self.ex.loop.step_one():
                break
            self.ex.sample('tick')
            self.note()

    def message(self, msg):
        """Deliver one control message (A) or the equivalent direct call (B)."""
        kind, what, arg = msg
        proc = self.ex.proc
        loop = self.ex.loop
        rec = {'msg': msg, 'terminated_before': proc.has_terminated(), 'state_before': proc.state.value, 'paused_before': proc.paused}
        with loop.as_running():
            try:
                if self.remote:
                    if kind == 'bcast':
                        ctl = self.thread_ctl
                        if what == 'pause':
                            ret = ctl.pause_all(arg)
                        elif what == 'play':
                            ret = ctl.play_all()
                        else:
                            ret = ctl.kill_all(arg)
                        rec['reply'] = None
                    elif self.case['controller'] == 'coro':
                        ctl = self.coro_ctl
                        coro = {'pause': lambda: ctl.pause_process(proc.pid, arg), 'play': lambda: ctl.play_process(proc.pid), 'kill': lambda: ctl.kill_process(proc.pid, arg), 'status': lambda: ctl.get_status(proc.pid)}[what]()
                        rec['reply'] = loop.create_task(coro)
                        rec['reply']._pv_owned = True
                    else:
                        ctl = self.thread_ctl
                        rec['reply'] = {'pause': lambda: ctl.pause_process(proc.pid, arg), 'play': lambda: ctl.play_process(proc.pid), 'kill': lambda: ctl.kill_process(proc.pid, arg), 'status': lambda: ctl.get_status(proc.pid)}[what]()
                else:
                    if what == 'pause':
                        rec['reply'] = proc.pause(arg)
                    elif what == 'play':
                        rec['reply'] = proc.play()
                    elif what == 'kill':
                        rec['reply'] = proc.kill(arg)
                    else:
                        info = {}
                        proc.get_status_info(info)
                        rec['reply'] = info
                    if kind == 'bcast':
                        rec['reply'] = None
            except Exception as exc:  # noqa: BLE001
                rec['send_error'] = exc
        self.replies.append(rec)
        self.ex.sample('msg')
        self.note()
        return rec


def _norm_reply(out):
    if out[0] == 'raise':
        exc = out[1]
        cause = exc.__cause__ if exc.__cause__ is not None else exc
        return ('raise', type(cause).__name__)
    if out[0] == 'ok' and isinstance(out[1], dict) and 'process_string' in out[1]:
        # status replies embed str(process) (class name, state): equal classes give equal strings
        return ('ok', {k: v for k, v in out[1].items() if k != 'ctime'})
    return out


def execute(case):
    viol = []

    def v(clause, detail):
        viol.append({'clause': clause, 'detail': detail})

    mode = case['mode']
    nontrivial = False
    classes = ['mode:' + mode, 'comm:' + case['comm'], 'ctl:' + case.get('controller', 'thread')]
    if case.get('sub_fail'):
        classes.append('subscription-timeout:' + case['sub_fail'])
    if case.get('closing_listener'):
        classes.append('listener-closes-at-termination')
    if case.get('wrapped_kill'):
        classes.append('kill-answers-with-future')
    with Side(case, True) as a:
        if not a.started:
            return {'violations': [{'clause': 'construct', 'detail': repr(a.ex.construct_error)}], 'nontrivial': False, 'classes': classes}
        history = {'schedule': case['schedule']}
        if mode == 'quiescent':
            b_ctx = Side(case, False)
        else:
            b_ctx = None
        # two loops alive at the same time: always re-install the loop of the side being driven
        b = None
        if b_ctx is not None:
            b = b_ctx.__enter__()
            _activate(a)
        try:
            for ev in case['schedule']:
                for side in (a, b):
                    if side is None:
                        continue
                    _activate(side)
                    kind = ev[0]
                    if kind == 'settle':
                        side.drain()
                    elif kind == 'tick':
                        side.tick(ev[1])
                    elif kind == 'resume':
                        side.ex.event(['resume', ev[1]])
                        side.note()
                    elif kind == 'open':
                        side.ex.event(ev)
                    else:
                        if mode == 'quiescent':
                            side.drain()  # messages are delivered at quiescent points only (also after shrinking)
                        rec = side.message(ev)
                        if side is a and not rec['terminated_before'] and (rec['state_before'] == 'waiting' or rec['paused_before'] or mode == 'instep'):
                            nontrivial = True
            for side in (a, b):
                if side is None:
                    continue
                _activate(side)
                side.drain()
                side.recording = False
                side.ex.settle(play=True, resumes=[41, 42, 43, 44], open_gates=True)
                side.note()
            if a.ex.proc.has_terminated():
                # a terminated process no longer receives messages: one more status request must find nobody
                _activate(a)
                a.message(['rpc', 'status', None])
                a.drain()
                # ... and both of its subscriptions were given back: its identifiers are free again (a process loaded from
                # a checkpoint with the same communicator subscribes under the same identifiers)
                if not case.get('sub_fail'):
                    ident = str(a.ex.proc.pid)
                    for what, add, remove in (('rpc', a.inner.add_rpc_subscriber, a.inner.remove_rpc_subscriber), ('broadcast', a.inner.add_broadcast_subscriber, a.inner.remove_broadcast_subscriber)):
                        try:
                            add(lambda *args, **kwargs: None, identifier=ident)
                            remove(ident)
                        except kiwipy.DuplicateSubscriberIdentifier:
                            v('subscription-not-released', f'the terminated (closed) process still holds its {what} subscription {ident!r}')

            # replies
            for i, rec in enumerate(a.replies):
                kind, what, arg = rec['msg']
                _activate(a)
                if 'send_error' in rec:
                    if rec['terminated_before'] and isinstance(rec['send_error'], kiwipy.UnroutableError):
                        classes.append('unroutable-after-termination')
                        continue
                    v('send-raised', f"message {rec['msg']} in state {rec['state_before']}: {rec['send_error']!r}")
                    continue
                if rec['terminated_before'] and kind == 'rpc':
                    out = _unwrap(rec['reply'], a.drain)
                    if out[0] == 'raise' and isinstance(out[1], kiwipy.UnroutableError):
                        classes.append('unroutable-after-termination')
                        continue
                    v('terminated-process-still-routable', f"RPC {what} was delivered to a terminated process ({rec['state_before']})")
                    continue
                if kind == 'bcast':
                    continue
                if case.get('controller') == 'coro' and case.get('comm') == 'bare' and isinstance(rec['reply'], asyncio.Task) and rec['reply'].done() and not rec['reply'].cancelled() and rec['reply'].exception() is None and isinstance(rec['reply'].result(), (concurrent.futures.Future, asyncio.Future)):
                    # the coroutine controller awaits the outcome: what it returns is the answer, not one more future (with the
                    # in-process loop wrapper in between there is one more level than over a broker: only the bare case is judged)
                    v('reply-not-final', f"message {rec['msg']} in state {rec['state_before']}: the coroutine controller returned {type(rec['reply'].result()).__name__} instead of the outcome")
                    continue
                leaked = _loop_future_in_reply(rec['reply'], a.drain)
                if leaked is not None:
                    v('reply-not-final', f"message {rec['msg']} in state {rec['state_before']}: the reply that reached the controller is {leaked}, a future of the process's event loop instead of the final outcome")
                    continue
                raw = _unwrap(rec['reply'], a.drain)
                if raw[0] == 'raise' and isinstance(raw[1], kiwipy.UnroutableError) and a.ex.proc.has_terminated():
                    rec['late_unroutable'] = True  # the controller coroutine sent the message after the process had terminated
                    classes.append('unroutable-after-termination')
                    continue
                got = _norm_reply(raw)
                if mode == 'quiescent':
                    _activate(b)
                    want = _norm_reply(_unwrap(b.replies[i]['reply'], b.drain))
                    _activate(a)
                    if got != want:
                        v('reply-differs', f"message {rec['msg']} in state {rec['state_before']} (paused={rec['paused_before']}): reply {got!r}, direct call gave {want!r}")
                elif what != 'status':
                    calls = [r for r in a.recorded if r[0] == what]
                    idx = sum(1 for r in a.replies[:i] if r['msg'][1] == what and r['msg'][0] == 'rpc' and 'send_error' not in r and not r['terminated_before'] and not r.get('late_unroutable'))
                    if idx >= len(calls):
                        v('handler-did-not-call', f'message {rec["msg"]}: the process method {what}() was not called')
                    else:
                        _n, status, ret = calls[idx]
                        want = _norm_reply(('raise', ret) if status == 'raise' else _unwrap(ret, a.drain))
                        if got != want:
                            v('reply-differs', f"message {rec['msg']}: reply {got!r}, the call made by the handler returned {want!r}")
            # message text / intent mapping (in-step mode has no twin): the calls made must match the messages sent
            if mode == 'instep':
                sent = [r['msg'][1] for r in a.replies if r['msg'][1] != 'status' and 'send_error' not in r and not r['terminated_before'] and not r.get('late_unroutable')]
                made = [r[0] for r in a.recorded]
                if sorted(sent) != sorted(made):
                    v('calls-differ-from-messages', f'messages {sent} but the handlers called {made}')
            if mode == 'quiescent' and not viol:
                if a.snaps != b.snaps:
                    n = next((i for i, (x, y) in enumerate(zip(a.snaps, b.snaps)) if x != y), min(len(a.snaps), len(b.snaps)))
                    v('twin-differs', f'observable history differs at change #{n}: remote {a.snaps[n:n+2]} direct {b.snaps[n:n+2]}')
                va, vb = a.ex.views(), b.ex.views()
                for key in ('state', 'outputs', 'status', 'paused'):
                    if va[key] != vb[key]:
                        v('twin-final-differs', f'{key}: remote {va[key]!r} direct {vb[key]!r}')
                if str(va['result'][:2]) != str(vb['result'][:2]):
                    v('twin-final-differs', f"result: remote {va['result'][:2]} direct {vb['result'][:2]}")

            # broadcasts: exactly state_changed.<from>.<to> for every entered state, once, in order, sender = pid
            expected = ['state_changed.None.created'] + [f'state_changed.{frm}.{to}' for frm, to, _ in a.ex.transitions]
            # transitions that happened after close() are invisible to the monitor callback: use sampled states there
            got = [s for sender, s in a.inner.state_broadcasts if sender == a.ex.proc.pid]
            # processes launched by the process share its communicator: they announce their own transitions under their pid
            children = list(a.ex.world.extra.get('children', []))
            for child in children:
                theirs = [s for sender, s in a.inner.state_broadcasts if sender == child.pid]
                ok = bool(theirs) and theirs[0] == 'state_changed.None.created' and theirs[-1].endswith('.' + child.state.value)
                ok = ok and all(x.split('.')[2] == y.split('.')[1] for x, y in zip(theirs, theirs[1:]))
                if not ok and not case.get('fail'):
                    v('child-broadcasts', f'launched child {child.pid} ended {child.state.value} but announced {theirs}')
            if children:
                classes.append('launched-children')
            failed = a.inner.failed
            exp_after_fault = [s for i, s in enumerate(expected) if not (case.get('fail') and case['fail']['index'] <= i + 1 < case['fail']['index'] + case['fail'].get('count', 1))]
            if failed:
                classes.append('broadcast-failed:' + case['fail']['exc'])
            if got != (exp_after_fault if failed else expected):
                v('state-broadcasts', f'announced {got}, transitions were {expected}' + (f' (broadcast #{case["fail"]["index"]} made to fail)' if failed else ''))
            if any(sender != a.ex.proc.pid and sender not in [c.pid for c in children] for sender, _ in a.inner.state_broadcasts):
                v('broadcast-sender', str(a.inner.state_broadcasts[:3]))
            for ctx in a.ex.loop.escapes():
                v('loop-exception', f"{ctx['message'][:70]} {ctx['exc_type']}: {ctx['exc_str']}")
                break
            # a tolerated broadcast failure never disturbs the process: compare with the twin (quiescent) is done above;
            # additionally the process must not have excepted with the fault
            if failed:
                exc = a.ex.proc.exception()
                if isinstance(exc, tuple(FAULTS.values())):
                    v('broadcast-failure-excepted-process', repr(exc))
            history['remote'] = a.snaps[:20]
            history['broadcasts'] = got[:20]
            history['replies'] = [str(_norm_reply(_unwrap(r.get('reply'), a.drain)))[:80] if 'send_error' not in r else 'send_error:' + type(r['send_error']).__name__ for r in a.replies]
        finally:
            if b_ctx is not None:
                _activate(b)
                b_ctx.__exit__(None, None, None)
            _activate(a)
    return {'violations': viol, 'nontrivial': nontrivial, 'classes': classes, 'history': history}


def _activate(side):
    """Two executors are alive at the same time: install the event loop and the world of the side being driven."""
    from .. import world

    asyncio.set_event_loop(side.ex.loop)
    world.CUR = side.ex.world


def shrink_candidates(case):
    import copy

    if case.get('fail'):
        cand = copy.deepcopy(case)
        del cand['fail']
        yield cand
    if case['comm'] == 'loop':
        cand = copy.deepcopy(case)
        cand['comm'] = 'bare'
        yield cand
    from .c04 import shrink_candidates as sc

    yield from sc(case)


SIGNATURES = {}
