"""C20 -- future adapters deliver result, error or cancellation exactly once."""

import asyncio
import itertools

import kiwipy
from hypothesis import strategies as st
from plumpy import communications, futures
from plumpy.processes import Process

from ..steploop import StepLoop

ID = 'C20'
LEVEL = 'exploration'
RULE = (
    'cases = chains of depth d<=4 (thorough 5) of futures resolving to futures, the last level ending in value | exception '
    '| cancellation (any level may end the chain), completed in EVERY order, with event-loop callbacks drained or not '
    'between completions; adapters: unwrap_kiwi_future, plum_to_kiwi_future followed by unwrap, Process._schedule_rpc, '
    'create_task; plus operation sequences run/cancel/run on CancellableAction whose function returns or raises; '
    'non-trivial = depth >= 2 or a non-value outcome or an action sequence of >= 2 operations; distinct = SHA-1 of the case JSON'
)
ASSUMPTIONS = [
    'cross-thread hand-offs are delivered as event-loop callbacks at generated positions; data races inside CPython or kiwipy are out of scope; a call made from a real second thread (joined before the harness looks) must wake the loop (counted _write_to_self calls)',
    'a handler error in _schedule_rpc is deliberately re-raised as RuntimeError(...) from exc: compared through __cause__',
]
BUDGET = {
    'quick': {'enum': [3], 'hyp': 2000, 'shards': 8},
    'thorough': {'enum': [4, 5], 'hyp': 60000, 'shards': 16},
}
TERMINALS = ['value', 'exception', 'cancel']
CT_FNS = ['value', 'raise', 'gate-value', 'gate-raise', 'raise-cancelled', 'gate-raise-cancelled', 'raise-invalid', 'gate-raise-invalid', 'factory-raise']
ADAPTERS = ['unwrap', 'plum2kiwi', 'rpc', 'convert', 'convert-async', 'convert-filter', 'convert-filter-kw']


def enumerate_cases(tier, scope):
    dmax = scope
    for adapter in ADAPTERS:
        for depth in range(1, dmax + 1):
            if dmax == 5 and depth < 5:
                continue
            for terminal in TERMINALS:
                orders = list(itertools.permutations(range(depth)))
                if depth == 5:
                    orders = orders[::7]
                for order in orders:
                    for drain in ('each', 'end'):
                        yield {'kind': 'chain', 'adapter': adapter, 'depth': depth, 'terminal': terminal, 'order': list(order), 'drain': drain}
    for fn in CT_FNS:
        yield {'kind': 'create_task', 'fn': fn}
        yield {'kind': 'create_task', 'fn': fn, 'thread': True}
        yield {'kind': 'create_task', 'fn': fn, 'implicit_loop': True}
    for what in ('rpc', 'broadcast', 'task', 'task_noreply'):
        yield {'kind': 'comm_thread', 'what': what}
        yield {'kind': 'comm_thread', 'what': what, 'implicit_loop': True}
    for fn in ('value', 'raise'):
        yield {'kind': 'rpc_plain', 'fn': fn}
        yield {'kind': 'rpc_plain', 'fn': fn, 'thread': True}
    for method in ('continue', 'launch'):
        for delivery in ('ok', 'failed'):
            yield {'kind': 'noreply', 'method': method, 'delivery': delivery}
    for through in ('other', 'again'):
        yield {'kind': 'rewrap', 'through': through}
    for intent in ('play', 'pause', 'kill', 'other'):
        for paused in (False, True):
            for by_keyword in (False, True):
                yield {'kind': 'bcast_reply', 'intent': intent, 'paused': paused, 'by_keyword': by_keyword}
                if intent in ('pause', 'kill'):
                    yield {'kind': 'bcast_reply', 'intent': intent, 'paused': paused, 'by_keyword': by_keyword, 'bare_body': True}
    ops = ['run', 'cancel', 'run']
    for n in range(1, 4):
        for seq in itertools.product(['run', 'cancel'], repeat=n):
            for fn in ('value', 'raise', 'raise-base'):
                yield {'kind': 'action', 'fn': fn, 'ops': list(seq)}
    _ = ops


@st.composite
def _cases(draw, tier):
    kind = draw(st.sampled_from(['chain', 'chain', 'chain', 'action', 'create_task']))
    if kind == 'chain':
        depth = draw(st.integers(1, 4 if tier == 'quick' else 6))
        return {
            'kind': 'chain',
            'adapter': draw(st.sampled_from(ADAPTERS)),
            'depth': depth,
            'terminal': draw(st.sampled_from(TERMINALS)),
            'order': draw(st.permutations(list(range(depth)))),
            'drain': draw(st.sampled_from(['each', 'end', 'alternate'])),
        }
    if kind == 'action':
        return {'kind': 'action', 'fn': draw(st.sampled_from(['value', 'raise', 'raise-base'])), 'ops': draw(st.lists(st.sampled_from(['run', 'cancel']), min_size=1, max_size=5))}
    if draw(st.integers(0, 3)) == 0:
        return {'kind': 'rpc_plain', 'fn': draw(st.sampled_from(['value', 'raise'])), 'thread': draw(st.booleans())}
    return {'kind': 'create_task', 'fn': draw(st.sampled_from(CT_FNS)), 'thread': draw(st.booleans())}


def strategy(tier):
    return _cases(tier)


# ---------------------------------------------------------------------------------------------
class Boom(Exception):
    pass


def _state(fut):
    """('pending',) | ('cancelled',) | ('exception', exc) | ('result', value) for kiwi and asyncio futures."""
    if not fut.done():
        return ('pending',)
    if fut.cancelled():
        return ('cancelled',)
    exc = fut.exception()
    if exc is not None:
        return ('exception', exc)
    return ('result', fut.result())


def _run_chain(case, v):
    adapter = case['adapter']
    depth = case['depth']
    terminal = case['terminal']
    loop = StepLoop()
    asyncio.set_event_loop(loop)
    value = object()
    error = Boom('inner')
    try:
        with loop.as_running():
            if adapter == 'unwrap':
                levels = [kiwipy.Future() for _ in range(depth)]
                adapted = futures.unwrap_kiwi_future(levels[0])
            elif adapter == 'plum2kiwi':
                levels = [loop.create_future() for _ in range(depth)]
                adapted = futures.unwrap_kiwi_future(communications.plum_to_kiwi_future(levels[0]))
            elif adapter in ('convert', 'convert-async'):
                # a (sync or async) subscriber behind convert_to_comm / LoopCommunicator that answers with a loop future
                levels = [loop.create_future() for _ in range(depth)]
                if adapter == 'convert':
                    def subscriber(_comm, _msg):
                        return levels[0]
                else:
                    async def subscriber(_comm, _msg):
                        await asyncio.sleep(0)
                        return levels[0]
                adapted = futures.unwrap_kiwi_future(communications.convert_to_comm(subscriber, loop)(None, 'msg'))
            elif adapter in ('convert-filter', 'convert-filter-kw'):
                # a broadcast subscriber behind a BroadcastFilter (by subject, or by sender) that lets this broadcast
                # through although its other field would not match the pattern: its answer is delivered like any other
                levels = [loop.create_future() for _ in range(depth)]
                heard = []

                def subscriber(_comm, body, sender, subject, correlation_id):
                    heard.append((body, sender, subject))
                    return levels[0]

                if depth % 2:
                    filt = kiwipy.BroadcastFilter(subscriber, subject='state_changed.*')
                else:
                    filt = kiwipy.BroadcastFilter(subscriber, sender='proc-7')
                converted = communications.convert_to_comm(filt, loop)
                if adapter == 'convert-filter':
                    out = converted(None, 'body', 'proc-7', 'state_changed.running.waiting', None)
                else:
                    out = converted(None, body='body', sender='proc-7', subject='state_changed.running.waiting', correlation_id=None)
                # ... and one it does filter out is answered at once, without the subscriber being bothered
                skipped = converted(None, 'body', 'proc-8', 'intent.kill', None)
                if not (isinstance(skipped, kiwipy.Future) and skipped.done() and skipped.result() is None):
                    v('filtered-broadcast-delivered', f'a broadcast that the filter rejects gave {skipped!r}')
                adapted = futures.unwrap_kiwi_future(out)
            else:
                levels = [loop.create_future() for _ in range(depth)]
                proc = Process(pid=1, loop=loop)
                adapted = proc._schedule_rpc(lambda: levels[0])
        loop.drain()
        completed = set()
        early = None
        for n, idx in enumerate(case['order']):
            with loop.as_running():
                if idx == depth - 1:
                    if terminal == 'value':
                        levels[idx].set_result(value)
                    elif terminal == 'exception':
                        levels[idx].set_exception(error)
                    else:
                        levels[idx].cancel()
                else:
                    levels[idx].set_result(levels[idx + 1])
            completed.add(idx)
            if case['drain'] == 'each' or (case['drain'] == 'alternate' and n % 2 == 0):
                loop.drain()
                # pending until every level up to the innermost one is complete
                connected = all(i in completed for i in range(depth))
                if not connected and adapted.done():
                    early = (sorted(completed), _state(adapted)[0])
        loop.drain()
        got = _state(adapted)
        if adapter.startswith('convert-filter') and heard != [('body', 'proc-7', 'state_changed.running.waiting')]:
            v('filter-subscriber-calls', f'the subscriber behind the filter heard {heard}')
        if early is not None:
            v('resolved-early', f'adapter future was {early[1]} when only levels {early[0]} of {depth} had completed')
        if terminal == 'value':
            if got[0] != 'result' or got[1] is not value:
                v('wrong-outcome', f'{adapter} depth {depth}: expected the innermost value, adapter future is {got[0]} {got[1:] if got[0] != "result" else "(another object)"}')
        elif terminal == 'exception':
            if got[0] != 'exception' or got[1] is not error:
                v('wrong-outcome', f'{adapter} depth {depth}: expected the innermost exception, adapter future is {got}')
        else:
            if got[0] != 'cancelled':
                v('wrong-outcome', f'{adapter} depth {depth}: innermost computation was cancelled, adapter future is {got[0]}')
        for ctx in loop.escapes():
            v('loop-exception', f"{ctx['message'][:80]} {ctx['exc_type']}: {ctx['exc_str']}")
            break
    finally:
        for task in loop.all_tasks:
            task._log_destroy_pending = False
            if not task.done():
                task.cancel()
        loop.drain(200)
        for lvl in levels:
            if lvl.done() and not lvl.cancelled():
                lvl.exception()
        loop.shutdown()
        asyncio.set_event_loop(None)


def _run_create_task(case, v):
    loop = StepLoop()
    asyncio.set_event_loop(loop)
    value, error = object(), Boom('task')
    gate = None
    try:
        with loop.as_running():
            gate = loop.create_future()
            calls = []

            if case['fn'].endswith('raise-cancelled'):
                # exceptions of the communicator-side future family are ordinary outcomes of a coroutine as well
                error = kiwipy.CancelledError('a kiwi future somebody cancelled')
            elif case['fn'].endswith('raise-invalid'):
                import concurrent.futures

                error = concurrent.futures.InvalidStateError('a reply resolved twice')

            async def coro():
                calls.append(1)
                if case['fn'].startswith('gate'):
                    await gate
                if 'raise' in case['fn']:
                    raise error
                return value

            if case['fn'] == 'factory-raise':
                # the factory itself fails, before any coroutine exists (e.g. a subscriber called with the wrong arguments)
                async_coro = coro

                def coro():  # noqa: F811
                    calls.append(1)
                    raise error

                _ = async_coro
            if case.get('thread'):
                # the adapters exist to be called from communicator threads: do so (the thread is joined before the
                # harness looks, so this is deterministic) and require that the idle loop is woken up
                import threading

                box = {}
                before = loop.wakeups

                def from_thread():
                    try:
                        box['fut'] = futures.create_task(coro, loop)
                    except BaseException as exc:  # noqa: BLE001
                        box['err'] = exc

                worker = threading.Thread(target=from_thread)
                worker.start()
                worker.join()
                if 'err' in box:
                    # the calling thread has no event loop of its own (communicator threads do not): the loop is named
                    v('create-task-raised', f"create_task(coro, loop) called from a thread without an event loop raised {type(box['err']).__name__}: {box['err']}")
                    return
                fut = box['fut']
                if fut.get_loop() is not loop:
                    v('future-on-wrong-loop', 'the future handed back by create_task(coro, loop) does not live on the loop that was named')
                    return
                if loop.wakeups <= before:
                    v('loop-not-woken', 'create_task() called from another thread did not wake the event loop: an idle loop would not run the coroutine')
            elif case.get('implicit_loop'):
                fut = None
            else:
                fut = futures.create_task(coro, loop)
        if case.get('implicit_loop') and not case.get('thread'):
            # called from synchronous set-up code before the loop runs, without naming the loop (it is the current one)
            try:
                fut = futures.create_task(coro)
            except Exception as exc:  # noqa: BLE001
                v('create-task-raised', f'create_task(coro) called before the loop runs raised {type(exc).__name__}: {exc}')
                return
        loop.drain()
        if case['fn'].startswith('gate'):
            if fut.done():
                v('resolved-early', 'create_task future done while the coroutine is still waiting')
            with loop.as_running():
                gate.set_result(None)
            loop.drain()
        got = _state(fut)
        if 'raise' in case['fn']:
            if got[0] != 'exception' or got[1] is not error:
                v('wrong-outcome', f'create_task: expected the coroutine exception {error!r}, got {got}')
        elif got[0] != 'result' or got[1] is not value:
            v('wrong-outcome', f'create_task: expected the coroutine result, got {got[0]}')
        if len(calls) != 1:
            v('call-count', f'coroutine function called {len(calls)} times')
        if fut.done() and not fut.cancelled():
            fut.exception()
    finally:
        for task in loop.all_tasks:
            task._log_destroy_pending = False
        loop.shutdown()
        asyncio.set_event_loop(None)


def _run_comm_thread(case, v):
    """A message delivered by a communicator thread through LoopCommunicator must wake the loop and be handled."""
    import threading

    loop = StepLoop()
    asyncio.set_event_loop(loop)
    try:
        inner = kiwipy.LocalCommunicator()
        if case.get('implicit_loop'):
            # the wrapper is built on the loop's thread without naming the loop (wrap_communicator(comm)): it belongs to the
            # loop that is current there, also for messages that other threads deliver later
            comm = communications.wrap_communicator(inner)
        else:
            comm = communications.LoopCommunicator(inner, loop)
        seen = []

        def rpc(_comm, msg):
            seen.append(('rpc', msg))
            return 'reply'

        def bcast(_comm, body, sender, subject, correlation_id):
            seen.append(('broadcast', body))

        def task(_comm, msg):
            seen.append(('task', msg))
            return 'done'

        comm.add_rpc_subscriber(rpc, 'r1')
        comm.add_broadcast_subscriber(bcast, 'b1')
        comm.add_task_subscriber(task, 't1')
        before = loop.wakeups
        box = {}

        def send():
            if case['what'] == 'rpc':
                box['fut'] = comm.rpc_send('r1', 'hello')
            elif case['what'] == 'task_noreply':
                box['noreply'] = comm.task_send('hello', no_reply=True)
            elif case['what'] == 'broadcast':
                comm.broadcast_send('hello', sender='s', subject='subj')
            else:
                box['fut'] = comm.task_send('hello')

        def guarded_send():
            try:
                send()
            except Exception as exc:  # noqa: BLE001
                box['error'] = exc

        worker = threading.Thread(target=guarded_send)
        worker.start()
        worker.join()
        if 'error' in box:
            v('delivery-raised', f"delivering a {case['what']} message from a communicator thread raised {type(box['error']).__name__}: {box['error']}")
            return
        if loop.wakeups <= before:
            v('loop-not-woken', f"a {case['what']} message delivered from another thread did not wake the event loop")
        loop.drain()
        if case['what'] == 'task_noreply':
            if box.get('noreply') is not None:
                v('no-reply-flag-dropped', f"task_send(..., no_reply=True) through the loop communicator handed back {box.get('noreply')!r}: the wrapped communicator was asked for a reply")
            if [s[0] for s in seen] != ['task']:
                v('message-not-handled', f'subscriber calls: {seen}')
            return
        if [s[0] for s in seen] != [case['what']]:
            v('message-not-handled', f'subscriber calls: {seen}')
        if 'fut' in box:
            fut = box['fut']
            for _ in range(4):
                if fut.done() and not fut.cancelled() and fut.exception() is None and isinstance(fut.result(), kiwipy.Future):
                    fut = fut.result()
                    loop.drain()
            if fut.done() and (fut.cancelled() or fut.exception() is not None):
                v('wrong-outcome', f"the reply to the {case['what']} message is {'cancelled' if fut.cancelled() else repr(fut.exception())[:200]}")
                return
            want = 'reply' if case['what'] == 'rpc' else 'done'
            if not fut.done() or fut.result() != want:
                v('wrong-outcome', f"reply {(fut.result() if fut.done() else 'pending')!r}, expected {want!r}")
    finally:
        for task_ in loop.all_tasks:
            task_._log_destroy_pending = False
        loop.shutdown()
        asyncio.set_event_loop(None)


def _run_noreply(case, v):
    """A fire-and-forget task (no_reply=True) sent through the coroutine controller: the call returns None once the
    communicator confirmed the delivery, and a delivery that failed reaches the caller as the exception it is."""
    from plumpy import process_comms

    class Broker:
        def __init__(self):
            self.sent = []
            self.confirmations = []

        def task_send(self, message, no_reply=False):
            self.sent.append((message.get('task'), no_reply))
            fut = kiwipy.Future()
            self.confirmations.append(fut)
            return fut

    loop = StepLoop()
    asyncio.set_event_loop(loop)
    lost = getattr(kiwipy, 'DeliveryFailed', RuntimeError)('lost on the way')
    try:
        broker = Broker()
        ctl = process_comms.RemoteProcessController(broker)
        with loop.as_running():
            if case['method'] == 'continue':
                coro = ctl.continue_process(7, no_reply=True)
            else:
                coro = ctl.launch_process(Process, no_reply=True)
            task = loop.create_task(coro)
            task._pv_owned = True
        loop.drain()
        if task.done():
            v('returned-before-confirmation', f"{case['method']}_process(no_reply=True) returned before the communicator confirmed the delivery")
            return
        with loop.as_running():
            if case['delivery'] == 'ok':
                broker.confirmations[0].set_result(None)
            else:
                broker.confirmations[0].set_exception(lost)
        loop.drain()
        got = _state(task)
        if case['delivery'] == 'ok':
            if got[0] != 'result' or got[1] is not None:
                v('wrong-outcome', f'confirmed delivery: {got}')
        elif got[0] != 'exception' or got[1] is not lost:
            v('delivery-failure-lost', f"the delivery failed, but {case['method']}_process(no_reply=True) ended with {got}")
        if broker.sent[0][1] is not True:
            v('no-reply-flag-dropped', f'task_send was called with no_reply={broker.sent[0][1]}')
    finally:
        for task_ in loop.all_tasks:
            task_._log_destroy_pending = False
        loop.shutdown()
        asyncio.set_event_loop(None)


def _run_rewrap(case, v):
    """wrap_communicator() on a communicator that is already wrapped: the same wrapper for the same loop, a wrapper for the
    other loop otherwise - subscribers added through it run on the loop it was asked for."""
    loop1, loop2 = StepLoop(), StepLoop()
    asyncio.set_event_loop(loop1)
    try:
        inner = kiwipy.LocalCommunicator()
        first = communications.wrap_communicator(inner, loop1)
        again = communications.wrap_communicator(first, loop1)
        other = communications.wrap_communicator(first, loop2)
        if again is not first:
            classes_note = 'rewrapped-for-the-same-loop'  # allowed (an equivalent wrapper), just noted
            _ = classes_note
        if other.loop() is not loop2:
            v('rewrap-kept-the-old-loop', 'wrap_communicator(wrapped_for_loop1, loop2) returned a communicator that schedules on loop1')
        ran_on = []

        def rpc(_comm, msg):
            ran_on.append('loop1' if asyncio.get_event_loop() is loop1 else 'loop2' if asyncio.get_event_loop() is loop2 else 'other')
            return 'reply:' + msg

        target = other if case['through'] == 'other' else again
        want_loop = 'loop2' if case['through'] == 'other' else 'loop1'
        target.add_rpc_subscriber(rpc, 'r1')
        fut = inner.rpc_send('r1', 'hello')
        for _ in range(6):
            loop1.drain()
            loop2.drain()
            if fut.done() and not fut.cancelled() and fut.exception() is None and isinstance(fut.result(), kiwipy.Future):
                fut = fut.result()
        if ran_on != [want_loop]:
            v('subscriber-on-wrong-loop', f'the subscriber added through the wrapper for {want_loop} ran on {ran_on}')
        got = _state(fut)
        if got[0] != 'result' or got[1] != 'reply:hello':
            v('wrong-outcome', f'reply {got}')
    finally:
        for lp in (loop1, loop2):
            for task_ in lp.all_tasks:
                task_._log_destroy_pending = False
            lp.shutdown()
        asyncio.set_event_loop(None)


def _run_rpc_plain(case, v):
    loop = StepLoop()
    asyncio.set_event_loop(loop)
    value, error = object(), Boom('handler')
    try:
        with loop.as_running():
            proc = Process(pid=1, loop=loop)
            calls = []

            def handler():
                calls.append(1)
                if case['fn'] == 'raise':
                    raise error
                return value

            if case.get('thread'):
                # a bare communicator delivers on its own thread: the request must wake the (idle) loop
                import threading

                box = {}
                before = loop.wakeups
                worker = threading.Thread(target=lambda: box.setdefault('reply', proc._schedule_rpc(handler)))
                worker.start()
                worker.join()
                reply = box['reply']
                if loop.wakeups <= before:
                    v('loop-not-woken', '_schedule_rpc() called from a communicator thread did not wake the event loop: an idle loop would neither act nor reply')
            else:
                reply = proc._schedule_rpc(handler)
        loop.drain()
        got = _state(reply)
        if case['fn'] == 'raise':
            if got[0] != 'exception' or not (got[1] is error or got[1].__cause__ is error):
                v('wrong-outcome', f'_schedule_rpc: expected the handler error (possibly as __cause__), got {got}')
        elif got[0] != 'result' or got[1] is not value:
            v('wrong-outcome', f'_schedule_rpc: expected the handler result, got {got[0]}')
        if len(calls) != 1:
            v('call-count', f'handler called {len(calls)} times')
    finally:
        for task in loop.all_tasks:
            task._log_destroy_pending = False
        loop.shutdown()
        asyncio.set_event_loop(None)


def _run_bcast_reply(case, v):
    """A control intent that reaches the process as a broadcast is answered with a future for the outcome of the
    request, like the same intent sent as an RPC (a communicator hands that future on to whoever sent the broadcast)."""
    from plumpy import process_comms

    loop = StepLoop()
    asyncio.set_event_loop(loop)
    try:
        with loop.as_running():
            proc = Process(pid=1, loop=loop)
            if case.get('paused'):
                proc.pause('before')
            intent = {'play': process_comms.Intent.PLAY, 'pause': process_comms.Intent.PAUSE, 'kill': process_comms.Intent.KILL, 'other': 'state_changed.x.y'}[case['intent']]
            body = {'message': 'because'} if case['intent'] in ('pause', 'kill') else None
            if case.get('bare_body') and body is not None:
                body = {}  # an intent without a text (the text is optional)
            try:
                if case.get('by_keyword'):
                    reply = proc.broadcast_receive(None, msg=body, sender='ctl', subject=intent, correlation_id=None)
                else:
                    reply = proc.broadcast_receive(None, body, 'ctl', intent, None)
            except Exception as exc:  # noqa: BLE001
                v('broadcast-receive-raised', f"the {case['intent']} intent with body {body!r} made broadcast_receive raise {type(exc).__name__}: {exc}")
                return
        if case['intent'] == 'other':
            if reply is not None:
                v('unknown-broadcast-answered', f'a broadcast that is no control intent was answered with {reply!r}')
        elif not isinstance(reply, kiwipy.Future):
            v('broadcast-not-answered', f"the {case['intent']} intent received as a broadcast was answered with {reply!r}, not with a future for its outcome")
        else:
            if reply.done():
                v('resolved-early', 'the reply was resolved before the request ran on the loop')
            loop.drain()
            got = _state(reply)
            if got[0] != 'result' or got[1] is not True:
                v('wrong-outcome', f"reply to the {case['intent']} broadcast is {got}, expected True")
        loop.drain()
        want = {'kill': 'killed'}.get(case['intent'], 'created')
        if proc.state.value != want or (case['intent'] == 'pause' and not proc.paused) or (case['intent'] == 'play' and proc.paused):
            v('intent-not-carried-out', f"after the {case['intent']} broadcast: state {proc.state.value}, paused={proc.paused}")
        if case['intent'] == 'kill' and not case.get('bare_body') and proc.killed_msg() is not None and proc.killed_msg().get('message') != 'because':
            v('intent-text-lost', f'kill text {proc.killed_msg()!r}')
    finally:
        for task in loop.all_tasks:
            task._log_destroy_pending = False
        loop.shutdown()
        asyncio.set_event_loop(None)


def _run_action(case, v):
    loop = StepLoop()
    asyncio.set_event_loop(loop)
    value, error = object(), Boom('action')
    try:
        with loop.as_running():
            calls = []

            def fn(*args, **kwargs):
                calls.append((args, kwargs))
                if case['fn'] == 'raise':
                    raise error
                if case['fn'] == 'raise-base':
                    # e.g. the function looked at a dependency that was cancelled meanwhile: not an Exception
                    raise asyncio.CancelledError('a cancelled dependency')
                return value

            action = futures.CancellableAction(fn, cookie='c')
            ran = cancelled = False
            for i, op in enumerate(case['ops']):
                if op == 'cancel':
                    res = action.cancel()
                    if not ran and not cancelled:
                        cancelled = True
                        if res is not True:
                            v('cancel-pending-failed', f'op {i}: cancel() on a pending action returned {res!r}')
                    continue
                try:
                    action.run(1, k=2)
                    raised = None
                except Exception as exc:  # noqa: BLE001
                    raised = exc
                except asyncio.CancelledError as exc:
                    raised = exc if (ran or cancelled or case['fn'] != 'raise-base') else None  # the first run lets it through
                if ran or cancelled:
                    if raised is None and not (ran and case['fn'] == 'raise-base'):
                        # (after a run that a BaseException cut short the action is neither done nor runnable: what
                        # counts there is that the function is not called again, which the call count below decides)
                        v('rerun-not-refused', f"op {i}: run() after {'cancel' if cancelled and not ran else 'run'} did not raise")
                else:
                    ran = True
                    if raised is not None:
                        v('first-run-raised', f'op {i}: {raised!r}')
            if len(calls) > 1:
                v('call-count', f'the action function ran {len(calls)} times')
            if ran and len(calls) != 1:
                v('call-count', f'the action was run but its function was called {len(calls)} times')
            if calls and calls[0] != ((1,), {'k': 2}):
                v('arguments', f'function received {calls[0]}')
            got = _state(action)
            if ran and case['fn'] == 'raise-base':
                pass  # a BaseException is not an outcome the action has to carry; the function must still not run again
            elif ran:
                if case['fn'] == 'raise':
                    if got[0] != 'exception' or got[1] is not error:
                        v('outcome-not-on-action', f'expected the exception on the action, got {got}')
                elif got[0] != 'result' or got[1] is not value:
                    v('outcome-not-on-action', f'expected the result on the action, got {got[0]}')
            elif cancelled and got[0] != 'cancelled':
                v('outcome-not-on-action', f'cancelled action reports {got[0]}')
            if action.cookie != 'c':
                v('cookie', repr(action.cookie))
    finally:
        loop.shutdown()
        asyncio.set_event_loop(None)


def execute(case):
    viol = []

    def v(clause, detail):
        viol.append({'clause': clause, 'detail': detail})

    kind = case['kind']
    if kind == 'chain':
        _run_chain(case, v)
        nontrivial = case['depth'] >= 2 or case['terminal'] != 'value'
        classes = ['chain:' + case['adapter'], 'depth:%d' % case['depth'], 'terminal:' + case['terminal']]
    elif kind == 'create_task':
        _run_create_task(case, v)
        nontrivial = case['fn'] != 'value'
        classes = ['create_task:' + case['fn'] + (':thread' if case.get('thread') else '')]
    elif kind == 'comm_thread':
        _run_comm_thread(case, v)
        nontrivial = True
        classes = ['comm_thread:' + case['what']]
    elif kind == 'rpc_plain':
        _run_rpc_plain(case, v)
        nontrivial = case['fn'] != 'value' or bool(case.get('thread'))
        classes = ['rpc_plain:' + case['fn'] + (':thread' if case.get('thread') else '')]
    elif kind == 'noreply':
        _run_noreply(case, v)
        nontrivial = True
        classes = ['noreply:' + case['method'] + ':' + case['delivery']]
    elif kind == 'rewrap':
        _run_rewrap(case, v)
        nontrivial = True
        classes = ['rewrap:' + case['through']]
    elif kind == 'bcast_reply':
        _run_bcast_reply(case, v)
        nontrivial = True
        classes = ['bcast_reply:' + case['intent']]
    else:
        _run_action(case, v)
        nontrivial = len(case['ops']) >= 2
        classes = ['action:' + case['fn'], 'ops:%d' % len(case['ops'])]
    return {'violations': viol, 'nontrivial': nontrivial, 'classes': classes, 'history': dict(case)}


SIGNATURES = {}
