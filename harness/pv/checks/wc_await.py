"""Workchains awaiting futures and child processes: shared executor for C10 (barrier) and C06 (no lost wake-up)."""

import itertools

from hypothesis import strategies as st

from .. import gen, wc
from ..exec import Exec
from ..programs import ProgError, control

OUTLINE = [['step', 'a'], ['step', 'b'], ['step', 'c']]
# the registering step `a` as the last step of a conditional or loop body: the barrier is the same
SHAPES = {
    'flat': (OUTLINE, {}),
    'if': ([['if', [['p', [['step', 'a']]]], None], ['step', 'b'], ['step', 'c']], {'p': [True]}),
    'elif': ([['if', [['p', [['step', 'd']]], ['q', [['step', 'd'], ['step', 'a']]]], None], ['step', 'b'], ['step', 'c']], {'p': [False], 'q': [True]}),
    'else': ([['if', [['p', [['step', 'd']]]], [['step', 'a']]], ['step', 'b'], ['step', 'c']], {'p': [False]}),
    'while': ([['while', 'p', [['step', 'a']]], ['step', 'b'], ['step', 'c']], {'p': [True, False]}),
    'while-if': ([['while', 'p', [['step', 'd'], ['if', [['q', [['step', 'a']]]], None]]], ['step', 'b'], ['step', 'c']], {'p': [True, False], 'q': [True]}),
}
CHILD_PID = 100


def child_program(outcome):
    if outcome[0] == 'value':
        return {'steps': [gen.S([['gate', 'go'], ['out', 'x', outcome[1]]], ['value', outcome[1]], True)]}
    if outcome[0] == 'exc':
        return {'steps': [gen.S([['gate', 'go']], ['raise', outcome[1]], True)]}
    # (killed while it waits for a wake-up that never comes: a kill interrupts a wait at once, whereas a running step
    # would first have to come to its end)
    return {'steps': [gen.S([['yield']], ['wait', 1, 'never', None], True), gen.S([], ['value', 0])]}


def build(case):
    rets, toctx = {}, {}
    for i, aw in enumerate(case['awaits']):
        if aw['kind'] == 'fut':
            spec = ['fut', f'f{i}']
        elif aw['kind'] == 'done':
            spec = ['done', aw['outcome'][1]]
        else:
            spec = ['child', child_program(aw['outcome']), CHILD_PID + i]
        (rets if aw['how'] == 'ret' else toctx)[aw['key']] = spec
    outline, preds = SHAPES[case.get('shape') or 'flat']
    behaviour = {'rets': {}, 'tocontext': {}, 'preds': preds}
    if rets:
        behaviour['rets']['a'] = [{'__tc__': rets}]
    if toctx:
        behaviour['tocontext']['a'] = [toctx]
    if case.get('reassign'):
        behaviour['tocontext']['b'] = [{case['reassign']['key']: ['done', case['reassign']['value']]}]
    return wc.make_workchain(outline, behaviour)


def expected_value(aw):
    if aw['kind'] == 'child':
        return {'x': aw['outcome'][1]}
    return aw['outcome'][1]


def run(case):
    """Execute; returns an observation dict (all JSON-able except 'exc' objects)."""
    obs = {}
    cls = build(case)
    awaits = case['awaits']
    own_loop = bool(case.get('own_loop'))
    with Exec({'program': {'steps': []}, 'decoy_loop': own_loop}, attach_listener=False) as ex:
        w = ex.world
        if own_loop:
            # the chain and the processes it is going to wait for are constructed for a loop of their own while no loop
            # is running (the thread's default loop is another one, which never runs)
            from ..programs import make_class

            proc = cls(pid=1, loop=ex.loop)
            for i, aw in enumerate(awaits):
                if aw['kind'] == 'child' and case.get('prebuilt'):
                    w.extra.setdefault('prechildren', {})[CHILD_PID + i] = make_class(child_program(aw['outcome']))(pid=CHILD_PID + i, loop=ex.loop)
        else:
            with ex.loop.as_running():
                proc = cls(pid=1, loop=ex.loop)
        ex.attach(proc)
        ex.sample('start')
        ex.launch_task()
        ex.drain()
        set_excs = {}
        completed = set()
        for ev in case['schedule']:
            kind = ev[0]
            if kind == 'tick':
                ex.tick(ev[1])
            elif kind in ('pause', 'play'):
                ex.event(ev)
            elif kind == 'complete':
                i = ev[1]
                if i in completed or i >= len(awaits):
                    continue
                completed.add(i)
                aw = awaits[i]
                with ex.loop.as_running():
                    if aw['kind'] == 'fut':
                        fut = w.gate(('wcfut', 1), f'f{i}')
                        if aw['outcome'][0] == 'value':
                            fut.set_result(aw['outcome'][1])
                        else:
                            exc = ProgError(aw['outcome'][1])
                            set_excs[i] = exc
                            fut.set_exception(exc)
                    elif aw['kind'] == 'child':
                        recs = [r for r in w.extra.get('awaited', {}).get(1, []) if r['spec'][0] == 'child' and r['spec'][2] == CHILD_PID + i]
                        if recs:
                            child = recs[0]['obj']
                            if aw['outcome'][0] == 'kill':
                                control(child, 'kill', aw['outcome'][1], who='harness')
                            else:
                                w.open_gate(child.pid, 'go')
                ex.sample('complete')
        # completion phase: play and drain only; a wake-up is never delivered twice
        ex.drain()
        for _ in range(4):
            if ex.proc.paused:
                ex.event(['play'], who='settle')
            ex.drain()
        awaited = w.extra.get('awaited', {}).get(1, [])
        obs['awaited'] = [
            {'key': r['key'], 'how': r['how'], 'kind': r['spec'][0], 'done': r['fut'].done(), 'order': r['order'], 'child_terminated': bool(r['spec'][0] == 'child' and hasattr(r['obj'], 'has_terminated') and r['obj'].has_terminated()), 'child_state': r['obj'].state.value if r['spec'][0] == 'child' and hasattr(r['obj'], 'state') else None} for r in awaited
        ]
        obs['all_completed'] = all(r['fut'].done() for r in awaited) and len(awaited) >= len(awaits)
        obs['entries'] = [e for e in w.trace.get(1, []) if e['k'] == 'enter']
        obs['to_context_keys'] = list(w.extra.get('to_context_keys', {}).get(1, []))
        obs['views'] = ex.views()
        if obs['views'].get('decoy_scheduled'):
            obs['left_loop'] = obs['views']['decoy_scheduled']
        obs['set_excs'] = set_excs
        obs['escapes'] = [(c['message'][:70], c['exc_type'], c['exc_str']) for c in ex.loop.escapes()]
        obs['calls'] = [dict((k, v) for k, v in r.items() if not k.startswith('_')) for r in w.futs]
        # first failure in completion order
        failing = []
        for idx, aw in enumerate(awaits):
            if aw['outcome'][0] in ('exc', 'kill') and aw['kind'] != 'done':
                rec = next((r for r in awaited if r['key'] == aw['key']), None)
                if rec is not None and rec['order'] is not None:
                    failing.append((rec['order'], idx))
        obs['first_failure'] = min(failing)[1] if failing else None
        obs['history'] = {
            'schedule': case['schedule'],
            'completion_order': [r['key'] for r in sorted((r for r in awaited if r['order']), key=lambda r: r['order'])],
            'steps': [(e['step'], e.get('ctx'), e.get('pending')) for e in obs['entries']],
            'final': obs['views']['state'],
            'escapes': obs['escapes'],
        }
    return obs


def judge(case, obs, v):
    """Clauses shared by C10 and C06."""
    awaits = case['awaits']
    views = obs['views']
    entries = {e['step']: e for e in obs['entries']}
    for esc in obs['escapes']:
        v('loop-exception', str(esc)[:200])
        break
    registered = {r['key'] for r in obs['awaited']}
    bypassed = sorted(k for k in registered if k not in obs.get('to_context_keys', []))
    if bypassed:
        v('to-context-bypassed', f'awaitables {bypassed} were registered without going through the (overridable) to_context() method')
    if obs.get('left_loop'):
        v('left-its-loop', f"{obs['left_loop']} callback(s) were scheduled on the thread's default loop instead of the loop the chain and its children were given")
    for item in obs['awaited']:
        if item.get('child_terminated') and not item['done']:
            # the future of the child that was handed to the barrier when it was registered is the one that tells the end
            v('awaited-future-never-resolved', f"awaited child {item['key']} has terminated ({item['child_state']}) but the future the chain waits on is still pending")
            return 'incomplete'
    if not obs['all_completed']:
        return 'incomplete'
    first_failure = obs['first_failure']
    if first_failure is not None:
        aw = awaits[first_failure]
        if views['state'] != 'excepted':
            v('failure-not-excepted', f"awaited item {aw['key']} failed ({aw['outcome']}) but the workchain ended {views['state']}")
        else:
            exc = views['exception'][1]
            if aw['outcome'][0] == 'kill':
                if type(exc).__name__ != 'KilledError' or str(exc) != (aw['outcome'][1] or ''):
                    v('wrong-error', f"expected KilledError({aw['outcome'][1]!r}) from killed child {aw['key']}, got {exc!r}")
            elif aw['kind'] == 'fut':
                if exc is not obs['set_excs'].get(first_failure):
                    v('wrong-error', f"expected the exception of {aw['key']}, got {exc!r}")
            else:
                if not (isinstance(exc, ProgError) and exc.args == (aw['outcome'][1],)):
                    v('wrong-error', f"expected ProgError({aw['outcome'][1]!r}) of child {aw['key']}, got {exc!r}")
        if 'b' in entries:
            v('step-after-failed-barrier', 'step b ran although an awaited item failed')
        return 'failed-item'
    # all succeeded
    if views['state'] == 'waiting':
        v('lost-wakeup', f"every awaited item completed but the workchain is still WAITING (paused={views['paused']})")
        return 'ok'
    if views['state'] != 'finished':
        v('final-state', f"{views['state']}: {views['exception']}")
        return 'ok'
    b = entries.get('b')
    if b is None:
        v('barrier-step-missing', 'step b never ran')
        return 'ok'
    if b['pending']:
        v('barrier-broken', f"step b started while {b['pending']} had not completed")
    by_key = {}
    for aw in awaits:
        by_key.setdefault(aw['key'], []).append(aw)
    for key, group in by_key.items():
        if len(group) == 1:
            want = [expected_value(group[0])]
        else:
            # one key handed two awaitables in the same step: both belong to the barrier, the context holds the result of
            # one of them (the one that completed last assigns last)
            recs = {(r['key'], r['how']): r for r in obs['awaited']}
            last = max(group, key=lambda aw: recs.get((aw['key'], aw['how']), {}).get('order') or 0)
            want = [expected_value(last)]
        got = b['ctx'].get(key, '<missing>')
        if got not in want:
            v('context-value', f"at entry of step b ctx[{key!r}] = {got!r}, expected {want[0]!r}")
    if case.get('reassign'):
        c = entries.get('c')
        key = case['reassign']['key']
        if c is None:
            v('barrier-step-missing', 'step c never ran')
        elif c['ctx'].get(key, '<missing>') != case['reassign']['value']:
            v('reassigned-value', f"at entry of step c ctx[{key!r}] = {c['ctx'].get(key)!r}, expected {case['reassign']['value']!r}")
    return 'ok'


# ---------------------------------------------------------------------------------------------
KINDS_HOW = [('fut', 'ret'), ('fut', 'toctx'), ('child', 'ret'), ('child', 'toctx')]


def _awaits(n, kinds, outcomes):
    return [{'key': f'k{i}', 'how': kinds[i][1], 'kind': kinds[i][0], 'outcome': outcomes[i]} for i in range(n)]


def enumerate_barrier(nmax):
    """C10: all completion orders, kinds and outcome mixes for n <= nmax."""
    outs = [['value', 1], ['exc', 'e'], ['kill', 'kt'], ['exc', 'falsy']]
    for n in range(1, nmax + 1):
        for kinds in itertools.product(KINDS_HOW, repeat=n):
            if n == 3 and len(set(kinds)) == 1 and kinds[0][0] == 'child':
                pass
            for outcomes in itertools.product(outs, repeat=n):
                if any(o[0] == 'kill' and k[0] != 'child' for o, k in zip(outcomes, kinds)):
                    continue
                if n == 3 and sum(1 for o in outcomes if o[0] != 'value') > 1:
                    continue
                for order in itertools.permutations(range(n)):
                    for gap in (0, 1, 3):
                        sched = []
                        for i in order:
                            if gap:
                                sched.append(['tick', gap])
                            sched.append(['complete', i])
                        yield {'kind': 'wc_await', 'awaits': _awaits(n, kinds, [list(o) for o in outcomes]), 'schedule': sched}
    # the registering step inside conditionals and loops
    for shape in SHAPES:
        if shape == 'flat':
            continue
        for kinds in itertools.product(KINDS_HOW, repeat=2):
            for outcomes in ([['value', 1], ['value', 2]], [['value', 1], ['exc', 'e']]):
                for order in itertools.permutations(range(2)):
                    yield {'kind': 'wc_await', 'shape': shape, 'awaits': _awaits(2, kinds, outcomes), 'schedule': [s for i in order for s in (['tick', 1], ['complete', i])]}
    # one context key given two awaitables in the same step (one through to_context(), one in the returned ToContext)
    for kinds in itertools.product(['fut', 'child'], repeat=2):
        for order in itertools.permutations(range(2)):
            for gap in (0, 2):
                aws = [{'key': 'k0', 'how': 'toctx', 'kind': kinds[0], 'outcome': ['value', 1]}, {'key': 'k0', 'how': 'ret', 'kind': kinds[1], 'outcome': ['value', 2]}]
                sched = []
                for i in order:
                    if gap:
                        sched.append(['tick', gap])
                    sched.append(['complete', i])
                yield {'kind': 'wc_await', 'awaits': aws, 'schedule': sched, 'dup_key': True}
    # chain and awaited processes live on a loop of their own (not the thread's default loop); children launched by the
    # step or constructed beforehand, outside any running loop
    for kinds in itertools.product(KINDS_HOW, repeat=2):
        for outcomes in ([['value', 1], ['value', 2]], [['value', 1], ['exc', 'e']], [['kill', 'kt'], ['value', 2]]):
            if any(o[0] == 'kill' and k[0] != 'child' for o, k in zip(outcomes, kinds)):
                continue
            for order in itertools.permutations(range(2)):
                for prebuilt in (False, True):
                    if prebuilt and not any(k[0] == 'child' for k in kinds):
                        continue
                    yield {'kind': 'wc_await', 'own_loop': True, 'prebuilt': prebuilt, 'awaits': _awaits(2, kinds, outcomes), 'schedule': [s for i in order for s in (['tick', 1], ['complete', i])]}
    # pre-completed items and re-assignment
    for order in itertools.permutations(range(2)):
        for reassign in (None, {'key': 'k0', 'value': 'new'}, {'key': 'k2', 'value': 'new'}):
            aws = _awaits(2, [('fut', 'ret'), ('child', 'toctx')], [['value', 1], ['value', 2]])
            aws.append({'key': 'k2', 'how': 'toctx', 'kind': 'done', 'outcome': ['value', 'pre']})
            yield {'kind': 'wc_await', 'awaits': aws, 'reassign': reassign, 'schedule': [['complete', i] for i in order]}


def enumerate_cases(nmax):
    """C06: all orders and gaps <=2 of completions versus pause/play, all items succeed."""
    for n in range(1, nmax + 1):
        for kinds in itertools.product([('fut', 'ret'), ('child', 'toctx')], repeat=n):
            events = [['complete', i] for i in range(n)] + [['pause', 'p'], ['play']]
            for k in range(1, len(events) + 1):
                if n == 3 and k > 4:
                    continue
                for perm in itertools.permutations(events, k):
                    for gaps in itertools.product((0, 1, 2), repeat=k) if k <= 3 else [(0,) * k, (1,) * k, (0, 1) * (k // 2) + (0,) * (k % 2)]:
                        sched = []
                        for gap, ev in zip(gaps, perm):
                            if gap:
                                sched.append(['tick', gap])
                            sched.append(list(ev))
                        # deliver the remaining completions at the end (after the requests)
                        rest = [['complete', i] for i in range(n) if ['complete', i] not in [list(e) for e in perm]]
                        yield {
                            'kind': 'wc_await',
                            'awaits': _awaits(n, kinds, [['value', i + 1] for i in range(n)]),
                            'schedule': sched + rest,
                        }


@st.composite
def strategy_cases(draw, with_pause, failing):
    n = draw(st.integers(1, 4))
    aws = []
    for i in range(n):
        kind = draw(st.sampled_from(['fut', 'fut', 'child', 'done']))
        how = draw(st.sampled_from(['ret', 'toctx']))
        if kind == 'done':
            outcome = ['value', draw(st.integers(0, 3))]
        else:
            choices = [['value', draw(st.integers(0, 3))]] * 3
            if failing:
                choices = choices + [['exc', 'e%d' % i], ['exc', 'falsy']] + ([['kill', 'kt']] if kind == 'child' else [])
            outcome = draw(st.sampled_from(choices))
        aws.append({'key': f'k{i}', 'how': how, 'kind': kind, 'outcome': list(outcome)})
    todo = [i for i in range(n) if aws[i]['kind'] != 'done']
    order = draw(st.permutations(todo))
    sched = []
    for i in order:
        gap = draw(st.integers(0, 4))
        if gap:
            sched.append(['tick', gap])
        if with_pause and draw(st.integers(0, 2)) == 0:
            sched.append(draw(st.sampled_from([['pause', 'p'], ['play']])))
            if draw(st.booleans()):
                sched.append(['tick', draw(st.integers(1, 3))])
        sched.append(['complete', i])
        if with_pause and draw(st.integers(0, 3)) == 0:
            sched.append(draw(st.sampled_from([['pause', 'p'], ['play']])))
    reassign = None
    if draw(st.integers(0, 3)) == 0:
        reassign = {'key': draw(st.sampled_from([a['key'] for a in aws] + ['fresh'])), 'value': 'new'}
    shape = draw(st.sampled_from(['flat', 'flat'] + list(SHAPES)))
    case = {'kind': 'wc_await', 'shape': shape, 'awaits': aws, 'reassign': reassign, 'schedule': sched}
    if draw(st.integers(0, 3)) == 0:
        case['own_loop'] = True
        case['prebuilt'] = draw(st.booleans())
    return case


def enumerate_failing(nmax=2):
    """C06/C10 x pause: a failing item and a succeeding one complete around a pause/play in every order (gaps 0/1)."""
    n = 2
    for kinds in itertools.product([('fut', 'ret'), ('child', 'toctx')], repeat=n):
        for outcomes in ([['exc', 'e'], ['value', 1]], [['value', 1], ['exc', 'e']], [['exc', 'e1'], ['exc', 'e2']], [['kill', 'kt'], ['value', 2]], [['exc', 'falsy'], ['value', 1]]):
            if any(o[0] == 'kill' and k[0] != 'child' for o, k in zip(outcomes, kinds)):
                continue
            events = [['complete', 0], ['complete', 1], ['pause', 'p'], ['play']]
            for perm in itertools.permutations(events):
                for gaps in ((0, 0, 0, 0), (0, 0, 0, 1), (1, 0, 0, 0), (0, 1, 0, 0), (1, 1, 1, 1)):
                    sched = []
                    for gap, ev in zip(gaps, perm):
                        if gap:
                            sched.append(['tick', gap])
                        sched.append(list(ev))
                    yield {'kind': 'wc_await', 'awaits': _awaits(n, kinds, [list(o) for o in outcomes]), 'schedule': sched}


def strategy(tier):
    return strategy_cases(True, True)


def execute(case):
    """C06 view of a wc_await case."""
    viol = []

    def v(clause, detail):
        viol.append({'clause': clause, 'detail': detail})

    obs = run(case)
    judge(case, obs, v)
    sched = case['schedule']
    nontrivial = False
    in_pause = False
    for i, ev in enumerate(sched):
        if ev[0] == 'pause':
            in_pause = True
        elif ev[0] == 'play':
            in_pause = False
        elif ev[0] == 'complete':
            prev_ev = sched[i - 1][0] if i else None
            next_ev = sched[i + 1][0] if i + 1 < len(sched) else None
            if in_pause or prev_ev in ('pause', 'play') or next_ev in ('pause', 'play'):
                nontrivial = True
    classes = ['wc', 'n=%d' % len(case['awaits']), 'final:' + obs['views']['state'], 'shape:' + (case.get('shape') or 'flat')]
    if nontrivial:
        classes.append('wakeup-races-request')
    return {'violations': viol, 'nontrivial': nontrivial, 'classes': classes, 'history': obs['history']}
