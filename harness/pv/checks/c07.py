"""C07 -- save, load, save again yields the same bundle and the same observable process."""

import copy

from hypothesis import strategies as st

from .. import gen, loaders_h, media
from ..exec import Exec, observe

ID = 'C07'
LEVEL = 'exploration'
RULE = (
    'cases = process programs and workchain outlines with nested inputs, nested/dynamic outputs, wait msg/data, '
    'continuation arguments (values: JSON scalars, nested lists/dicts, tuples, UUIDs), unsuccessful / excepted / killed '
    'endings and pause points; at EVERY state entry and every paused quiescent point the process is saved, carried through '
    'each medium (deep copy, pickle, YAML), loaded into a fresh event loop and saved again, with the default or a custom '
    'object loader; non-trivial = the saved state carries continuation arguments, wait data, nested outputs, a non-empty '
    'context, the paused flag or a terminal outcome; distinct = SHA-1 of (case JSON, checkpoint index)'
)
ASSUMPTIONS = [
    'tblib is not installed, so the traceback text of an EXCEPTED state is ignored (the statement allows it)',
    'a workchain WAITING on live futures is not savable (plumpy leaves that to subclasses): such points are counted, not judged',
    'the custom loader is passed in both the save and the load context',
]
BUDGET = {
    'quick': {'enum': ['catalogue'], 'hyp': 1200, 'shards': 8},
    'thorough': {'enum': ['catalogue'], 'hyp': 40000, 'shards': 16},
}

TUP = {'__tuple__': [1, 'a']}
UID = {'__uuid__': '12345678-1234-5678-1234-567812345678'}
S = gen.S
RICH = {
    'steps': [
        S([['out', 'x', 1], ['out', 'ns.sub.y', [1, {'a': TUP}]], ['ctx', 'k', {'n': [1, 2]}], ['status', 'st']], ['continue', 1, [1, TUP, None], {'p': UID}]),
        S([['yield'], ['ctx', 'u', UID]], ['wait', 2, 'msg', {'d': [TUP, 2]}], True),
        S([['out', 'z', UID]], ['unsuccessful', 3]),
    ],
    'inputs': {'a': 1, 'ns': {'b': [1, 2], 'deep': {'c': 'x'}}, 't': TUP},
}


from ..models import ports as pm  # noqa: E402

SPECD = {
    'steps': [S([['out_input', 'seen_n', 'n'], ['status', 'st']], ['wait', 1, 'w', None]), S([['out_input', 'seen_fixed', 'fixed']], ['value', 1])],
    'spec': {'inputs': pm.ns({'n': pm.port(required=False, default=['counter', 100]), 'fixed': pm.port(required=False, valid_type='int', default=['callable', 7]), 'sub': pm.ns({'m': pm.port(required=False, default=['counter', 100])})})},
    'inputs': {},
}
CODEC = dict(RICH, codec=True)
HOOK_POINTS = {('on_run', 'post'), ('on_wait', 'post'), ('on_finish', 'post'), ('on_exit_running', 'post'), ('on_exit_waiting', 'post'), ('on_kill', 'post'), ('on_except', 'post'), ('on_output_emitted', 'post')}


def enumerate_cases(tier, scope):
    cat = gen.CATALOGUE
    scheds = [
        [],
        [['tick', 1], ['pause', 'pm'], ['tick', 2]],
        [['pause', None], ['tick', 1]],
        [['tick', 1], ['kill', 'kt']],
        [['tick', 2], ['pause', 'p2'], ['tick', 1], ['kill', 'k2']],
        [['tick', 1], ['cancel']],
    ]
    # finishes, then its on_finished hook raises: the process ends EXCEPTED with an outcome future that was already resolved
    hookfail = {'steps': [gen.S([['out', 'h', 1]], ['wait', 1, None, None]), gen.S([['out', 'g', 2]], ['value', 6])], 'raise_in_hook': ['on_finished', 'post']}
    # parks itself with a message and data but without a continuation (it is ended by kill or fail, not resumed)
    parked = {'steps': [gen.S([['out', 'p', 1]], ['wait', None, 'parked', {'d': [TUP, 2]}])]}
    # constructed with an explicitly empty mapping of inputs (not the same as no inputs at all)
    empty_inputs = dict(cat['wait1'], inputs={})
    progs = [RICH, cat['waitwait'], cat['failing'], cat['selfkill'], cat['chain'], SPECD, CODEC, hookfail, parked, empty_inputs]
    for prog in progs:
        for sched in scheds:
            for loader in ('default', 'custom', 'custom-arg'):
                yield {'program': prog, 'schedule': sched, 'loader': loader}
            yield {'program': prog, 'schedule': sched, 'loader': 'default', 'hook_points': True}
    from .c09 import _small_instrs

    for ins in _small_instrs(1)[:40]:
        for beh in (
            {'rets': {}, 'preds': {'p': [True, False], 'q': [True], 'r': [True]}, 'bodies': {'a': [['out', 'o.a', 1], ['ctx', 'c', [1]]]}},
            {'rets': {'a': [None, 5]}, 'preds': {'p': [True, True, False], 'q': [False], 'r': [True]}},
        ):
            yield {'outline': [ins, ['step', 'b']], 'behaviour': beh, 'schedule': [['tick', 1], ['pause', 'w'], ['tick', 1]], 'loader': 'default'}


VALS = st.recursive(
    st.one_of(st.integers(-2, 3), st.sampled_from(['s', '']), st.none(), st.booleans(), st.just(UID)),
    lambda inner: st.one_of(
        st.lists(inner, max_size=2),
        st.dictionaries(st.sampled_from(['a', 'b']), inner, max_size=2),
        st.builds(lambda xs: {'__tuple__': xs}, st.lists(inner, max_size=2)),
    ),
    max_leaves=4,
)


@st.composite
def _cases(draw, tier):
    n = draw(st.integers(1, 4))
    steps = []
    for idx in range(n):
        is_async = draw(st.booleans())
        body = []
        for _ in range(draw(st.integers(0, 3))):
            kind = draw(st.sampled_from(['out', 'out', 'ctx', 'status', 'yield'] if is_async else ['out', 'out', 'ctx', 'status']))
            if kind == 'out':
                body.append(['out', draw(st.sampled_from(['x', 'y', 'ns.z', 'ns.sub.w'])), draw(VALS)])
            elif kind == 'ctx':
                body.append(['ctx', draw(st.sampled_from(['k', 'm'])), draw(VALS)])
            elif kind == 'status':
                body.append(['status', draw(st.sampled_from(['s1', None]))])
            else:
                body.append(['yield'])
        if idx == n - 1:
            ret = draw(
                st.one_of(
                    st.builds(lambda v: ['value', v], VALS),
                    st.builds(lambda c: ['unsuccessful', c], st.integers(0, 3)),
                    st.just(['raise', 'e1']),
                    st.builds(lambda t: ['kill', t], st.sampled_from(['kt', '', None])),
                )
            )
        elif draw(st.booleans()):
            ret = ['wait', idx + 1 if draw(st.integers(0, 5)) else None, draw(st.sampled_from([None, 'msg'])), draw(VALS)]
        else:
            ret = ['continue', idx + 1, draw(st.lists(VALS, max_size=2)), draw(st.dictionaries(st.sampled_from(['p', 'q']), VALS, max_size=2))]
        steps.append({'async': is_async, 'body': body, 'ret': ret})
    inputs = draw(st.one_of(st.none(), st.dictionaries(st.sampled_from(['a', 'ns', 'b']), VALS, max_size=3)))
    sched = draw(gen.control_schedules(['pause', 'pause', 'play', 'kill', 'resume'], max_events=3, max_gap=3)) if draw(st.booleans()) else []
    program = {'steps': steps, 'inputs': inputs}
    if draw(st.integers(0, 3)) == 0:
        program['codec'] = True
    return {'program': program, 'schedule': sched, 'loader': draw(st.sampled_from(['default', 'default', 'custom', 'custom-arg'])), 'hook_points': draw(st.booleans())}


def strategy(tier):
    return _cases(tier)


# ---------------------------------------------------------------------------------------------
def same(a, b, path=''):
    """Structural equality of saved states; returns None or the path of the first difference."""
    if isinstance(a, BaseException) or isinstance(b, BaseException):
        if type(a) is not type(b) or [repr(x) for x in a.args] != [repr(x) for x in b.args]:
            return f'{path}: {a!r} != {b!r}'
        return None
    if isinstance(a, dict) and isinstance(b, dict):
        keys_a = {k for k in a if k != 'traceback'}
        keys_b = {k for k in b if k != 'traceback'}
        if keys_a != keys_b:
            return f'{path}: keys {sorted(map(str, keys_a ^ keys_b))} differ'
        for key in keys_a:
            diff = same(a[key], b[key], f'{path}/{key}')
            if diff:
                return diff
        return None
    if isinstance(a, (list, tuple)) and isinstance(b, (list, tuple)):
        if type(a) is not type(b) or len(a) != len(b):
            return f'{path}: {a!r} != {b!r}'
        for i, (x, y) in enumerate(zip(a, b)):
            diff = same(x, y, f'{path}[{i}]')
            if diff:
                return diff
        return None
    if isinstance(a, (set, frozenset)) and isinstance(b, (set, frozenset)):
        return None if len(a) == len(b) else f'{path}: set sizes differ'
    from collections.abc import Mapping

    if isinstance(a, Mapping) and isinstance(b, Mapping):
        return same(dict(a), dict(b), path)
    if a != b:
        return f'{path}: {a!r} != {b!r}'
    if type(a) is not type(b) and not (isinstance(a, (int, float)) and isinstance(b, (int, float))):
        return f'{path}: type {type(a).__name__} != {type(b).__name__}'
    return None


def _grow(value):
    """Add an entry to every dictionary nested in ``value`` (what further emissions into existing namespaces do)."""
    if isinstance(value, dict):
        for sub in list(value.values()):
            _grow(sub)
        value['pv_later'] = 1
    elif isinstance(value, list):
        for sub in value:
            _grow(sub)


def _load_and_resave(ckpt, medium, loader, how='unbundle'):
    out = {}
    data = media.encode(ckpt['bundle'], medium)
    with Exec({'program': {'steps': []}}, attach_listener=False) as ex:
        try:
            decoded = media.decode(data, medium)
            pristine = copy.deepcopy(decoded)
            with ex.loop.as_running():
                proc = media.load_bundle(decoded, ex.loop, loader=loader, how=how)
        except Exception as exc:  # noqa: BLE001
            out['load_error'] = exc
            return out
        # loading reads the saved state, it does not use it up: the same bundle can be loaded again
        out['bundle_changed_by_load'] = same(pristine, decoded)
        ex.proc = proc
        out['observed'] = observe(proc)
        try:
            # (every other point is saved again as a dereferenced bundle, the kind the in-memory persister keeps)
            out['bundle'] = copy.deepcopy(media.bundle_of(proc, loader, dereference=ckpt['index'] % 2 == 1))
        except Exception as exc:  # noqa: BLE001
            out['save_error'] = exc
        # ... also after the loaded process went on and put more into its (nested) outputs, as a later step would
        # ... and whoever holds the loaded process can put a listener on it, like on the original
        try:
            from plumpy.process_listener import ProcessListener

            extra_listener = ProcessListener()
            proc.add_process_listener(extra_listener)
            proc.remove_process_listener(extra_listener)
        except Exception as exc:  # noqa: BLE001
            out['listener_error'] = exc
        try:
            out['observed'] = copy.deepcopy(out['observed'])  # (what was observed before the process went on)
        except Exception:  # noqa: BLE001 - something uncopyable in the outcome: leave the outputs alone
            return out
        _grow(proc.outputs)
        out['bundle_changed_by_loaded_process'] = same(pristine, decoded)
    return out


def execute(case):
    pm.COUNTER[0] = 0
    viol = []
    classes = []

    def v(clause, detail):
        viol.append({'clause': clause, 'detail': detail})

    ways = set()
    loader = {'custom': loaders_h.TagLoader, 'custom-arg': lambda: loaders_h.ArgLoader({'registry': 1})}.get(case.get('loader'), lambda: None)()
    is_wc = 'outline' in case
    with Exec(case, attach_listener=False) as ex:
        ex.capture = 'bundle'
        ex.capture_loader = loader
        if not ex.start(create_task=False):
            return {'violations': [{'clause': 'construct', 'detail': repr(ex.construct_error)}], 'nontrivial': False, 'classes': []}
        ex.checkpoint('created', loader=loader)
        if case.get('hook_points'):
            # also save from inside the lifecycle hooks (after super()), where the previous state is still current
            def from_hook(proc, hook, pos, ex=ex):
                if (hook, pos) in HOOK_POINTS and proc is ex.proc:
                    ex.checkpoint(f'hook:{hook}', loader=loader)

            ex.world.extra['hook_listener'] = from_hook
        ex.launch_task()
        for ev in case.get('schedule', []):
            ex.event(ev)
            if ev[0] != 'tick' and ex.proc.paused and not ex.loop.pending():
                ex.checkpoint('paused', loader=loader)
            if ev[0] == 'cancel':
                # somebody cancelled the outcome future (that is a kill request, carried out by the loop a moment later):
                # a checkpoint taken right now can be written (what it restores to is not judged)
                ex.checkpoint('future-cancelled', loader=loader)['save_only'] = True
        ex.drain()
        if ex.proc.paused:
            ex.checkpoint('paused-quiescent', loader=loader)
        ex.settle(play=True, resumes=['r1', 'r2', 'r3', 'r4'], open_gates=True)
        checkpoints = ex.checkpoints
        escapes = ex.loop.escapes()
    n_unsavable = 0
    nontrivial_points = 0
    for ckpt in checkpoints:
        where = f"#{ckpt['index']} {ckpt['why']} state={ckpt['state']} paused={ckpt['paused']}"
        if 'error' in ckpt:
            if is_wc and ckpt['state'] == 'waiting':
                n_unsavable += 1
                continue
            v('save-failed', f"{where}: {ckpt['error']!r}")
            continue
        if ckpt.get('save_only'):
            if 'error' in ckpt:
                v('save-failed', f"{where}: {ckpt['error']!r}")
            continue
        b1 = ckpt['bundle']
        if _carries(b1, ckpt):
            nontrivial_points += 1
        for mi, medium in enumerate(media.MEDIA):
            # the public ways of recreating a process take turns (unbundle / Savable.load / recreate_from with and without context)
            how = media.LOAD_WAYS[(ckpt['index'] + mi) % len(media.LOAD_WAYS)]
            ways.add(how)
            try:
                res = _load_and_resave(ckpt, medium, loader, how)
            except Exception as exc:  # noqa: BLE001
                v('medium-failed', f'{where} via {medium}: {exc!r}')
                continue
            if 'load_error' in res:
                v('load-failed', f"{where} via {medium} ({how}): {res['load_error']!r}")
                continue
            if res.get('bundle_changed_by_load'):
                v('load-changed-the-bundle', f"{where} via {medium} ({how}): loading changed the saved state it was given: {res['bundle_changed_by_load']}")
                continue
            if 'listener_error' in res:
                v('loaded-process-refuses-listener', f"{where} via {medium} ({how}): add_process_listener on the loaded process raised {res['listener_error']!r}")
                continue
            if res.get('bundle_changed_by_loaded_process'):
                v('loaded-process-shares-the-bundle', f"{where} via {medium} ({how}): outputs emitted by the loaded process afterwards showed up in the saved state it was loaded from: {res['bundle_changed_by_loaded_process']}")
                continue
            if 'save_error' in res:
                v('resave-failed', f"{where} via {medium}: {res['save_error']!r}")
                continue
            diff = same(b1, res['bundle'])
            if diff:
                v('bundle-differs', f'{where} via {medium}: {diff}')
            odiff = same(ckpt['observed'], res['observed'])
            if odiff:
                v('observable-differs', f'{where} via {medium}: {odiff}')
    for esc in escapes:
        classes.append('escape-noted')
        break
    classes.append('wc' if is_wc else 'proc')
    classes.append('loader:' + case.get('loader', 'default'))
    classes.extend('load-way:' + w for w in sorted(ways))
    classes.append('checkpoints:%d' % len(checkpoints))
    if n_unsavable:
        classes.append('unsavable-wc-waiting')
    if any(c['paused'] for c in checkpoints):
        classes.append('paused-point')
    for c in checkpoints:
        classes.append('state:' + c['state'])
    return {
        'violations': viol,
        'nontrivial': nontrivial_points > 0,
        'classes': sorted(set(classes)),
        'history': {'checkpoints': [(c['index'], c['why'], c['state'], c['paused'], 'error' in c) for c in checkpoints], 'unsavable': n_unsavable},
    }


def _carries(bundle, ckpt):
    state = bundle.get('_state', {})
    if ckpt['paused'] or ckpt['state'] in ('finished', 'excepted', 'killed'):
        return True
    if state.get('args') or state.get('kwargs') or state.get('data') is not None:
        return True
    if bundle.get('_context') or any(isinstance(v, dict) for v in (bundle.get('OUTPUTS') or {}).values()):
        return True
    return False


from .c04 import shrink_candidates  # noqa: E402,F401

SIGNATURES = {}
