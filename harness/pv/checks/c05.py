"""C05 -- pause/play is transparent: nothing runs while paused, no step lost or repeated."""

from hypothesis import strategies as st

from .. import gen
from . import common_pp

ID = 'C05'
LEVEL = 'exploration'
RULE = (
    'cases = (program; wake-up values delivered as logical events; <=K pause(msg)/play()/resume requests at tick '
    'boundaries, inside steps and from listeners), each compared with its twin run without pause/play; non-trivial = '
    '>=1 pause took effect or was withdrawn by play before taking effect; distinct = SHA-1 of the case JSON'
)
ASSUMPTIONS = [
    'steps are deterministic functions of their arguments and persisted state, so the twin run is the reference',
    'wake-ups are logical events (value of the j-th wait), so both runs receive the same values',
    'lifecycle hooks do not raise; no kill requests (C04)',
]
BUDGET = {
    'quick': {'enum': ['k1', 'k2', 'self2', 'listener', 'wc1', 'wc2', 'afterkill', 'reload', 'withdraw', 'hookstatus', 'repause'], 'hyp': 4000, 'shards': 8},
    'thorough': {'enum': ['k1', 'k2', 'k3', 'k4w', 'self3', 'listener', 'wc1', 'wc2', 'wc3', 'afterkill', 'reload', 'withdraw', 'hookstatus', 'repause'], 'hyp': 120000, 'shards': 16},
}
ALPHABET = [['pause', 'pm'], ['pause', None], ['play'], ['resume', 1]]
ALPHABET_SMALL = [['pause', 'pm'], ['play'], ['resume', 1]]
SELF_CALLS = [['call', 'pause', 'sp'], ['call', 'play', None]]


def enumerate_cases(tier, scope):
    cat = gen.CATALOGUE
    names = ('async2', 'wait1', 'chain', 'waitwait', 'sync3', 'gated')
    if scope in ('k1', 'k2', 'k3'):
        k = int(scope[1])
        max_gap = {1: 8, 2: 6, 3: 4}[k]
        alpha = ALPHABET if k < 3 else ALPHABET_SMALL
        for name in names:
            for sched in gen.schedules(alpha, k, max_gap):
                yield {'program': cat[name], 'schedule': sched, 'tag': f'{scope}:{name}'}
    elif scope in ('wc1', 'wc2', 'wc3'):
        k = int(scope[2])
        for name in gen.WC_CATALOGUE:
            for sched in gen.schedules([['pause', 'pm'], ['play']] + gen.WC_EVENTS, k, 3 if k < 3 else 2):
                yield dict(gen.base(name), schedule=sched, tag=f'{scope}:{name}')
    elif scope == 'reload':
        # a checkpoint/restore in the middle is as transparent as pause/play: same steps, outputs, result and status
        for name in ('wait1', 'waitwait', 'gated', 'chain'):
            for pre in ([['tick', 1]], [['tick', 2]]):
                for mid in ([['pause', 'pm'], ['tick', 2], ['reload'], ['tick', 1], ['play']], [['pause', None], ['tick', 2], ['reload'], ['play'], ['pause', 'x'], ['tick', 1], ['reload'], ['play']], [['reload'], ['pause', 'pm'], ['tick', 1], ['play']], [['pause', 'pm'], ['tick', 2], ['reload'], ['reload'], ['play']]):
                    yield {'program': cat[name], 'schedule': pre + mid, 'tag': f'reload:{name}'}
    elif scope == 'hookstatus':
        # a lifecycle hook of the transition sets the status (an application reporting its phase): the play that ends a
        # pause restores the status that was in place when the pause took effect, i.e. after that transition
        for name in ('async2', 'chain', 'wait1', 'gated'):
            for hook in ('on_running', 'on_waiting', 'on_entered', 'on_exit_running'):
                for occ in (1, 2):
                    for tick in (0, 1, 2, 3):
                        sched = [['tick', tick], ['pause', 'pm'], ['tick', 3], ['play']] if tick else [['pause', 'pm'], ['tick', 3], ['play']]
                        yield {'program': cat[name], 'schedule': sched, 'hooks': [{'hook': hook, 'occ': occ, 'pos': 'post', 'do': ['status', f'phase:{hook}:{occ}']}], 'tag': f'hookstatus:{name}'}
    elif scope == 'withdraw':
        # the caller cancels the future that a pending pause() returned (it gives up waiting for it): that request is
        # withdrawn like by a play(), and a later pause must work
        alpha = [['pause', 'pm'], ['pause', 'p2'], ['withdraw', 'pause'], ['play'], ['resume', 1]]
        for name in ('async2', 'wait1', 'gated', 'chain', 'waitwait'):
            for kk in (2, 3):
                for sched in gen.schedules(alpha, kk, 2):
                    kinds = [e[0] for e in sched]
                    if 'withdraw' not in kinds or kinds.index('withdraw') == 0 or 'pause' not in kinds[: kinds.index('withdraw')]:
                        continue
                    yield {'program': cat[name], 'schedule': [['tick', 1]] + sched, 'tag': f'withdraw:{name}'}
        # ... and the same for a kill request the caller gave up on: where that left the process alive, pause/play work
        # on it as on one that was never asked to stop
        alpha = [['pause', 'pm'], ['killw', 'kw'], ['play'], ['resume', 1]]
        for name in ('async2', 'wait1', 'gated', 'chain', 'waitwait'):
            for kk in (2, 3):
                for sched in gen.schedules(alpha, kk, 2):
                    kinds = [e[0] for e in sched]
                    if 'killw' not in kinds or 'pause' not in kinds[kinds.index('killw') :]:
                        continue
                    for pre in (0, 1, 2):
                        yield {'program': cat[name], 'schedule': ([['tick', pre]] if pre else []) + sched, 'tag': f'killwithdrawn:{name}'}
    elif scope == 'repause':
        # a listener answers the played notification with a new pause (a supervisor that is not done yet): the second
        # play restores the status of the program all the same
        progs = dict(cat)
        progs['status_wait'] = {'steps': [gen.S([['status', 'work']], ['wait', 1, None, None]), gen.S([['yield']], ['value', 3], True)]}
        progs['status_chain'] = {'steps': [gen.S([['yield'], ['status', 'w2'], ['yield']], ['continue', 1, [], {}], True), gen.S([['yield'], ['yield']], ['value', 1], True)]}
        cat = progs
        for name in ('status_wait', 'status_chain', 'async2', 'waitwait', 'missing_out'):
            for tick in (0, 1, 2, 3):
                for gap in (0, 2):
                    sched = ([['tick', tick]] if tick else []) + [['pause', 'pm'], ['tick', 3], ['play']] + ([['tick', gap]] if gap else []) + [['play']]
                    for occ in (1, 2):
                        yield {'program': cat[name], 'schedule': sched + ([['pause', 'again'], ['tick', 2], ['play'], ['play']] if occ == 2 else []), 'listener': [{'on': 'on_process_played', 'occ': occ, 'do': ['pause', 'lp']}], 'tag': f'repause:{name}'}
    elif scope == 'afterkill':
        # pause()/play() never raise, also around a termination (no twin comparison for these)
        for name in ('async2', 'wait1', 'chain', 'gated'):
            for pre in ([], [['tick', 1]], [['tick', 2]]):
                for seq in ([['pause', 'p'], ['kill', 'k'], ['play']], [['pause', 'p'], ['tick', 2], ['kill', 'k'], ['play'], ['pause', 'q'], ['play']], [['kill', 'k'], ['pause', 'p'], ['play']], [['pause', 'p'], ['tick', 3], ['fail', 'f'], ['play']]):
                    yield {'program': cat[name], 'schedule': pre + seq, 'no_twin': True}
    elif scope == 'k4w':
        for name in ('wait1', 'waitwait'):
            for sched in gen.schedules(ALPHABET_SMALL, 4, 2):
                yield {'program': cat[name], 'schedule': sched, 'tag': f'{scope}:{name}'}
    elif scope in ('self2', 'self3'):
        import itertools

        kmax = int(scope[4])
        rets = [['continue', 1, [3], {}], ['wait', 1, None, None], ['value', 1]]
        for k in range(1, kmax + 1):
            for calls in itertools.product(SELF_CALLS, repeat=k):
                for ret in rets:
                    for is_async in (False, True):
                        body = [['status', 'a']] + [list(c) for c in calls]
                        if is_async:
                            body = body[:2] + [['yield']] + body[2:]
                        prog = {'steps': [gen.S(body, ret, is_async), gen.S([['yield'], ['status', 'b']], ['value', 2], True)]}
                        for ext in ([], [['tick', 1], ['play']], [['tick', 1], ['pause', 'x']], [['tick', 2], ['resume', 5]]):
                            yield {'program': prog, 'schedule': ext, 'tag': scope}
    elif scope == 'listener':
        notifs = ['on_process_running', 'on_process_waiting', 'on_process_paused', 'on_process_played', 'on_output_emitted']
        for name in ('wait1', 'chain', 'waitwait', 'async2'):
            for on in notifs:
                for occ in (1, 2):
                    for do in (['pause', 'lp'], ['play', None]):
                        for sched in gen.schedules(ALPHABET_SMALL, 1, 4):
                            yield {'program': cat[name], 'schedule': sched, 'listener': [{'on': on, 'occ': occ, 'do': do}]}
                        if name in ('wait1', 'waitwait') and occ == 1:
                            for sched in gen.schedules(ALPHABET_SMALL, 2, 1):
                                yield {'program': cat[name], 'schedule': [['tick', 1]] + sched, 'listener': [{'on': on, 'occ': occ, 'do': do}]}
    else:
        raise ValueError(scope)


@st.composite
def _cases(draw, tier):
    prog = draw(
        gen.programs(
            max_steps=4 if tier == 'quick' else 6,
            self_calls=('pause', 'play'),
            soon=False,
            endings=('value', 'unsuccessful', 'raise'),
            kwargs=False,
        )
    )
    sched = draw(gen.control_schedules(['pause', 'pause', 'play', 'play', 'resume', 'open', 'reload', 'withdraw_pause', 'killw'], max_events=5, max_gap=4))
    plans = draw(gen.listener_plans(['pause', 'play'])) if draw(st.integers(0, 2)) == 0 else []
    return {'program': prog, 'schedule': sched, 'listener': plans}


def strategy(tier):
    return _cases(tier)


def execute(case):
    viol = []
    classes = []

    def v(clause, detail):
        viol.append({'clause': clause, 'detail': detail})

    a = common_pp.run_with_requests(case)
    calls = a['calls']
    if case.get('no_twin'):
        for r in calls:
            if r['what'] in ('pause', 'play') and r['raised']:
                v(f"{r['what']}-raised", f"{r['who']} {r['what']} in state {r['state_before']} (paused={r['paused_before']}): {r['raised']}")
            if r['what'] == 'play' and not r['raised'] and (r['ret'] != 'True' or r['paused_after']):
                v('play-left-paused', f"play() returned {r['ret']}, paused={r['paused_after']} in state {r['state_before']}")
        return {'violations': viol, 'nontrivial': True, 'classes': ['around-termination', 'final:' + a['views']['state']], 'history': a['history']}
    if any(ev[0] == 'killw' for ev in case.get('schedule', ())) and (a['views']['state'] == 'killed' or any(r['what'] == 'kill' and r['ret'] == 'True' for r in calls)):
        # the kill was carried out before it could be withdrawn: not a pause/play history any more (C04)
        return {'violations': viol, 'nontrivial': False, 'classes': ['kill-effective'], 'history': a['history']}
    b = common_pp.run_twin(case, a['delivered'])
    trace = a['trace']

    # pause()/play() never raise; play() returns True and leaves the process un-paused
    for r in calls:
        if r['what'] in ('pause', 'play') and r['raised']:
            v(f"{r['what']}-raised", f"{r['who']} {r['what']} in state {r['state_before']} (paused={r['paused_before']}): {r['raised']}")
        if r['what'] == 'play' and not r['raised']:
            if r['ret'] != 'True':
                v('play-not-true', f"play() returned {r['ret']} in state {r['state_before']}")
            nested_pause = any(n['what'] == 'pause' for n in calls[r['seq_start'] : r['seq']])
            if r['paused_after'] and not nested_pause:
                v('play-left-paused', f"process still paused after play() in state {r['state_before']}")

    # nothing runs while the process reports paused
    for e in trace:
        if e['k'] in ('enter', 'resumed') and e['paused']:
            v('step-ran-while-paused', f"{e['k']} of {e['step']} observed paused=True")
            break

    # a pause that was not withdrawn takes effect at the next step boundary: no new step is entered after it
    sched_calls = calls[: a['n_calls_schedule']]
    # (a pause whose returned future the caller cancelled is withdrawn: it makes no claim)
    # (neither does one that a later kill request superseded, whatever became of that kill)
    last_kill = max([r['begin'] for r in sched_calls if r['what'] == 'kill'], default=-1)
    pp = sorted((r for r in sched_calls if r['what'] in ('pause', 'play') and not r.get('withdrawn') and r['begin'] > last_kill), key=lambda r: r['begin'])
    if pp and pp[-1]['what'] == 'pause' and pp[-1]['live_before'] and not pp[-1]['raised']:
        last = pp[-1]
        pre = a['pre_settle']
        entered_after = sum(1 for e in trace[last['n_trace'] : a['n_trace_schedule']] if e['k'] == 'enter')
        if not pre['terminated'] and not pre['paused']:
            v('pause-lost', f"pause by {last['who']} in state {last['state_before']} never took effect (state {pre['state']}, not paused)")
        elif entered_after:
            v('pause-late', f"{entered_after} step(s) entered after the pause request by {last['who']} in state {last['state_before']}")

    # after a play() the process stays un-paused until another pause is requested
    _check_unpaused_after_play(a, v)

    # status restored by the play that ends a pause
    last_status = None
    status_at = []  # (n_trace, value) in order
    for i, e in enumerate(trace):
        if e['k'] == 'status':
            status_at.append((i, e['value']))
    hook_status = [(r['n_trace'] - 0.5, r['arg'], r['seq']) for r in calls if r['what'] == 'status' and not r['raised']]  # set from a hook, before the trace entry that follows it
    for r in calls:
        if r['what'] == 'play' and r['paused_before'] and not r['paused_after'] and r['live_before'] and not r['raised']:
            expected = None
            cands = [(idx, value) for idx, value in status_at if idx < r['n_trace']] + [(idx, value) for idx, value, seq in hook_status if seq < r['seq_start']]
            for _idx, value in sorted(cands, key=lambda t: t[0]):
                expected = value
            if r.get('status_after') != expected:
                v('status-not-restored', f"after play status={r.get('status_after')!r}, last status set by the program was {expected!r}")
    _ = last_status

    # identical to the uninterrupted run
    va, vb = a['views'], b['views']
    if a['steps'] != b['steps']:
        v('steps-differ', f"with requests {a['steps']} vs uninterrupted {b['steps']}")
    elif va['state'] != vb['state']:
        v('final-state-differs', f"{va['state']} vs uninterrupted {vb['state']}")
    else:
        if va['outputs'] != vb['outputs']:
            v('outputs-differ', f"{va['outputs']} vs {vb['outputs']}")
        if _cmp_view(va['result']) != _cmp_view(vb['result']):
            v('result-differs', f"{va['result'][:2]} vs {vb['result'][:2]}")
        if va['terminated'] and va['status'] != b['status_final']:
            v('final-status-differs', f"{va['status']!r} vs uninterrupted {b['status_final']!r}")
    for esc in a['escapes']:
        v('loop-exception', str(esc))
        break

    effective = any(s[2] for s in a['samples'])
    withdrawn = False
    pending = False
    for r in calls:
        if r['what'] == 'pause' and r['ret'] == 'future':
            pending = True
        elif r['what'] == 'play' and pending and not r['paused_before']:
            withdrawn = True
            pending = False
        elif r['what'] == 'pause':
            pending = False
    if any(r.get('withdrawn') for r in calls):
        classes.append('pause-future-cancelled-by-caller')
    if effective:
        classes.append('pause-effective')
    if withdrawn:
        classes.append('pause-withdrawn')
    if any(r['who'].startswith('self') for r in calls):
        classes.append('self-call')
    if any(r['who'].startswith('listener') for r in calls):
        classes.append('listener-call')
    if a['delivered']:
        classes.append('resume-delivered')
    classes.append('final:' + va['state'])
    return {'violations': viol, 'nontrivial': effective or withdrawn, 'classes': classes, 'history': a['history']}


def _cmp_view(view):
    if view[0] == 'ok':
        return ('ok', view[1])
    return ('raise', view[1], str(view[2]))


def _check_unpaused_after_play(a, v):
    """After play(), `paused` stays False until the next pause request (checked on samples and trace entries)."""
    calls = sorted((r for r in a['calls'] if r['what'] in ('pause', 'play')), key=lambda r: r['begin'])
    samples = a['samples']
    for i, r in enumerate(calls):
        if r['what'] != 'play' or r['raised']:
            continue
        if r['who'].startswith(('hook:on_pausing', 'hook:on_paused:pre')):
            # an override that calls play() and then goes on to carry out the pause it is part of (super().on_paused()
            # is what pauses): the play came before the pause took effect, it makes no claim about what follows
            continue
        start = r.get('sample')
        if start is None:
            continue  # self/listener calls carry no sample index
        if any(n['what'] == 'pause' for n in a['calls'][r['seq_start'] : r['seq']]):
            continue  # a listener issued a new pause while this play() was being carried out
        nxt = None
        for later in calls[i + 1 :]:
            if later['what'] == 'pause':
                nxt = later
                break
        end = len(samples)
        if nxt is not None:
            if nxt.get('sample') is None:
                continue  # next pause was issued from inside a step: position unknown, skip
            end = nxt['sample']
        for j in range(start, end):
            if samples[j][2]:
                v('paused-after-play', f"process reports paused at sample {j} ({samples[j][0]}) after play() and before any new pause request")
                return


from .c04 import shrink_candidates  # noqa: E402,F401

SIGNATURES = {}
