"""A module that exists but cannot be imported (it imports a name that was renamed away): the loader must report
a class living here as a ValueError like any other class it cannot load."""

from os import a_name_that_was_renamed_away  # noqa: F401  (raises ImportError, not ModuleNotFoundError)


class Thing:
    pass
