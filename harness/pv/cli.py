"""Command line: python -m pv.cli <ID> [--tier quick|thorough] [--seed N] [--replay FILE]"""

import argparse
import logging
import os
import sys
import warnings


def main():
    parser = argparse.ArgumentParser()
    parser.add_argument('prop')
    parser.add_argument('--tier', default=os.environ.get('VERIF_TIER') or 'quick', choices=['quick', 'thorough'])
    parser.add_argument('--seed', type=int, default=None)
    parser.add_argument('--replay', default=None)
    args = parser.parse_args()
    seed = args.seed if args.seed is not None else int(os.environ.get('VERIF_SEED') or 1)

    logging.disable(logging.CRITICAL)  # plumpy logs every swallowed listener/cleanup error; the oracles do not read logs
    warnings.simplefilter('ignore')

    repo = os.path.realpath(os.environ.get('VERIF_REPO', '/repo'))
    try:
        import plumpy
    except Exception as exc:  # noqa: BLE001
        print(f'HARNESS-ERROR cannot import plumpy: {exc!r}')
        return 2
    where = os.path.realpath(plumpy.__file__)
    if not where.startswith(os.path.join(repo, 'src') + os.sep):
        print(f'HARNESS-ERROR plumpy resolved to {where}, expected below {repo}/src')
        return 2

    from pv import runner

    prop = args.prop.upper()
    try:
        if args.replay:
            return runner.replay(prop, args.replay)
        return runner.run_check(prop, args.tier, seed)
    except Exception:  # noqa: BLE001
        import traceback

        print('HARNESS-ERROR')
        traceback.print_exc()
        return 2


if __name__ == '__main__':
    sys.exit(main())
