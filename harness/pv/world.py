"""Per-case harness memory (external trace, gates, injected faults).  Lives outside the processes so it
survives save/load and is never part of a bundle."""

import asyncio


class World:
    def __init__(self, loop=None):
        self.loop = loop
        self.trace = {}  # pid -> list of entries (step entries/exits/resumptions/self-calls/callbacks)
        self.hooks = {}  # pid -> list of (hook, position, current_is_self)
        self.hook_counts = {}  # (pid, hook) -> occurrences so far
        self.notifications = {}  # pid -> list of (notification, args summary)
        self.gates = {}  # (pid, gate) -> future on self.loop
        self.opened = set()
        self.futs = []  # futures/values returned by control calls: dicts {who, what, ret, fut}
        self.fault = None  # {'hook':..., 'occ':..., 'pos': 'pre'|'post', 'pid':..}  (C03)
        self.fault_fired = None
        self.listener_plan = {}  # pid -> list of {'on':notif,'occ':n,'do':[...]}
        self.hook_plan = {}  # pid -> list of {'hook':..,'occ':n,'pos':'pre'|'post','do':[...]}: control calls issued from lifecycle hooks
        self.listener_counts = {}
        self.listener_fault = None  # {'on': notif, 'occ': n}
        self.incarnation = {}  # pid -> int (bumped by restores)
        self.sample_current = False
        self.extra = {}

    # -- trace -------------------------------------------------------------------------------
    def tr(self, pid, entry):
        entry['inc'] = self.incarnation.get(pid, 0)
        self.trace.setdefault(pid, []).append(entry)
        from . import steploop

        steploop.BUDGET['traced'] = steploop.BUDGET.get('traced', 0) + 1
        if steploop.BUDGET.get('armed') and steploop.BUDGET['traced'] > steploop.CASE_LIMIT:
            # user code is being run over and over inside one event-loop callback (a stepping loop whose steps neither
            # suspend nor terminate the process): break out of it - on every further entry, until the case is over -
            # the runner turns this into a violation
            steploop.BUDGET['tripped'] = f"more than {steploop.CASE_LIMIT} trace entries (steps, hooks) within one case: user code runs without end"
            raise steploop.Livelock(steploop.BUDGET['tripped'])

    def steps(self, pid):
        """Step-level view of the trace: list of (step name, args, kwargs)."""
        return [(e['step'], e['args'], e['kwargs']) for e in self.trace.get(pid, []) if e['k'] == 'enter']

    # -- gates -------------------------------------------------------------------------------
    def gate(self, pid, name):
        key = (pid, name)
        fut = self.gates.get(key)
        if fut is None or fut.get_loop() is not self.loop or fut.cancelled():  # cancelled: the task awaiting it was cancelled
            fut = self.loop.create_future()
            self.gates[key] = fut
            if key in self.opened:
                fut.set_result(None)
        return fut

    def open_gate(self, pid, name):
        key = (pid, name)
        self.opened.add(key)
        fut = self.gates.get(key)
        if fut is not None and not fut.done():
            fut.set_result(None)

    def open_all_gates(self):
        n = 0
        for key, fut in list(self.gates.items()):
            if not fut.done():
                self.opened.add(key)
                fut.set_result(None)
                n += 1
        return n


CUR = World()


def reset(loop=None):
    global CUR
    CUR = World(loop)
    return CUR


def cur():
    return CUR
