"""Generated Process / WorkChain / Savable classes are registered here as module attributes so that
plumpy's DefaultObjectLoader can resolve them by ``pv.gen_classes:<Name>``."""

from plumpy import persistence as _persistence


class PvFuture(_persistence.SavableFuture):
    """An application-defined future class (e.g. one that carries extra behaviour): members of this class keep it."""


class QuietError(Exception):
    """An exception that is falsy (a container-like error with nothing in it): it is an exception all the same."""

    def __len__(self):
        return 0
