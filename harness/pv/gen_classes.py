"""Generated Process / WorkChain / Savable classes are registered here as module attributes so that
plumpy's DefaultObjectLoader can resolve them by ``pv.gen_classes:<Name>``."""
