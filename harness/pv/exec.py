"""E3/E4 -- executor for (program, schedule) cases with always-on monitors (public API only)."""

import asyncio
import contextlib
import gc

from plumpy import ProcessState
from plumpy.base.state_machine import StateEventHook
from plumpy.exceptions import ClosedError

from . import programs, world
from .programs import NOVALUE, control
from .steploop import StepLoop

_CASES = 0
gc.disable()  # collections happen between cases only (deterministic, hermetic)

TERMINAL = ('finished', 'excepted', 'killed')
LIVE = ('created', 'running', 'waiting')


class Cleanup:
    def __init__(self, raises=False, follow_up=None):
        self.calls = 0
        self.raises = raises
        self.follow_up = follow_up  # (process, cleanup) registered while this one runs, i.e. while the process closes
        self.follow_up_error = None

    def __call__(self):
        self.calls += 1
        if self.follow_up is not None:
            proc, other = self.follow_up
            try:
                proc.add_cleanup(other)
            except Exception as exc:  # noqa: BLE001
                self.follow_up_error = exc
        if self.raises:
            raise RuntimeError('cleanup failed (harness)')


class Exec:
    """Runs one case.  Usage: ``with Exec(case) as ex: ex.start(); ex.run_schedule(); ex.settle(...); obs = ex.observe()``"""

    def __init__(self, case, attach_listener=True, sample_current=False):
        self.case = case
        self.loop = None
        self.proc = None
        self.task = None
        self.close_live_at = None
        self.samples = []
        self.transitions = []
        self.events = []
        raising = case.get('cleanup_raises')
        self.cleanups = [Cleanup(raising == i) for i in range(3)]
        self.attach_listener = attach_listener
        self.sample_current = sample_current
        self.construct_error = None
        self.n_waits_resumed = 0
        self.delivered = {}  # wait serial -> first value delivered by resume() while WAITING
        self.listener = None
        self.harness_errors = []
        self.communicator = None  # given to the process constructor (C16)
        self.follow_up = None
        self.capture = None  # None, or a medium name: checkpoints are taken at every state entry
        self.checkpoints = []  # dicts {index, n_trace, state, waits, data | error}
        self.wait_base = 0  # waits that happened before this incarnation (restored runs)

    # -- lifecycle ---------------------------------------------------------------------------
    def __enter__(self):
        self.loop = StepLoop()
        self.decoy = None
        if self.case.get('decoy_loop'):
            # the process gets a loop of its own (the `loop=` parameter): the thread's default loop is another one that
            # never runs, and the process is constructed while no loop is running - whatever the library puts on the
            # default loop instead of the process's loop is lost
            self.decoy = StepLoop()
            asyncio.set_event_loop(self.decoy)
        else:
            asyncio.set_event_loop(self.loop)
        self.world = world.reset(self.loop)
        self.world.sample_current = self.sample_current
        return self

    def __exit__(self, *exc):
        # Hermeticity: nothing of this case may run later (a suspended coroutine finalised by the garbage
        # collector during a later case would write into that case's world).  Unwind every task now.
        global _CASES
        try:
            for _ in range(3):
                tasks = [t for t in asyncio.all_tasks(self.loop) if not t.done()]
                if not tasks:
                    break
                with self.loop.as_running():
                    for task in tasks:
                        task.cancel()
                self.loop.drain(500)
            for task in list(asyncio.all_tasks(self.loop)):
                task._log_destroy_pending = False
                if task.done() and not task.cancelled():
                    task.exception()  # mark retrieved; judged via views()
        except Exception:  # noqa: BLE001
            pass
        self.loop.shutdown()
        if self.decoy is not None:
            self.decoy.shutdown()
        asyncio.set_event_loop(None)
        world.reset(None)  # late writes (if any) land in a world nobody reads
        self.proc = None
        self.task = None
        _CASES += 1
        if _CASES % 64 == 0:
            gc.collect()
        return False

    def start(self, create_task=True):
        case = self.case
        cls = make_process_class(case)
        pid = case.get('pid', 1)
        self.world.listener_plan[pid] = case.get('listener', [])
        self.world.hook_plan[pid] = case.get('hooks', [])
        with contextlib.nullcontext() if self.decoy is not None else self.loop.as_running():
            try:
                self.proc = cls(inputs=programs.dec(case.get('inputs', (case.get('program') or {}).get('inputs'))), pid=pid, loop=self.loop, communicator=self.communicator)
            except Exception as exc:  # noqa: BLE001
                self.construct_error = exc
                return False
        self.attach(self.proc)
        self.sample('start')
        if create_task:
            self.launch_task()
        return True

    def attach(self, proc):
        """Attach monitors to a (new or restored) process."""
        self.proc = proc
        self.world.extra.setdefault('constructed', set()).add(proc.pid)
        proc.add_state_event_callback(StateEventHook.ENTERED_STATE, self._entered)
        if self.attach_listener:
            self.listener = programs.ProgListener()
            self.world.extra['main_listener'] = self.listener
            proc.add_process_listener(self.listener)
            if self.case.get('listener_twice'):
                proc.add_process_listener(self.listener)  # registration is idempotent
        for spec in self.case.get('observers', ()):
            self._add_oneshot_observer(proc, spec)
        if any(plan['do'][0] == 'remove_observer' for plan in self.case.get('hooks', ())):
            def extra_observer(_process, _hook, _state):
                return None

            self.world.extra['extra_observer'] = extra_observer
            proc.add_state_event_callback(StateEventHook.ENTERED_STATE, extra_observer)
        if not proc.has_terminated():
            if self.case.get('cleanup_follow_up') and self.follow_up is None:
                self.follow_up = Cleanup()
                self.cleanups[0].follow_up = (proc, self.follow_up)
            for cleanup in self.cleanups:
                proc.add_cleanup(cleanup)

    def _add_oneshot_observer(self, proc, spec):
        """A state-event callback registered through the public API that unregisters itself when it has seen its n-th
        event (a one-shot observer); registered after the monitor, so that nothing of the harness sits behind it."""
        hook = {'entered': StateEventHook.ENTERED_STATE, 'entering': StateEventHook.ENTERING_STATE, 'exiting': StateEventHook.EXITING_STATE}[spec['hook']]
        seen = [0]

        def oneshot(process, _hook, _state):
            seen[0] += 1
            if seen[0] == spec['occ']:
                process.remove_state_event_callback(hook, oneshot)
                self.world.extra.setdefault('oneshot_removed', []).append((spec['hook'], spec['occ'], process.state.value))

        proc.add_state_event_callback(hook, oneshot)

    def launch_task(self):
        with self.loop.as_running():
            self.task = self.loop.create_task(self.proc.step_until_terminated())
            self.task._pv_owned = True

    def _entered(self, proc, _hook, from_state):
        frm = from_state.LABEL.value if from_state is not None else None
        self.transitions.append((frm, proc.state.value, len(self.samples)))
        if self.capture is not None:
            self.checkpoint('entered')

    def checkpoint(self, why, loader=None):
        """Serialise the process right now (so later mutation of the live process cannot show)."""
        import copy

        from . import media

        proc = self.proc
        loader = loader if loader is not None else getattr(self, 'capture_loader', None)
        rec = {
            'index': len(self.checkpoints),
            'why': why,
            'n_trace': len(self.world.trace.get(proc.pid, [])),
            'state': proc.state.value,
            'paused': proc.paused,
            'waits': self._wait_serial(),
        }
        try:
            bundle = media.bundle_of(proc, loader)
            if self.capture == 'bundle':
                rec['bundle'] = copy.deepcopy(bundle)
                rec['observed'] = observe(proc)
            else:
                rec['data'] = media.encode(bundle, self.capture)
        except (Exception, asyncio.CancelledError) as exc:  # noqa: BLE001 - whether saving may fail here is the oracle's business
            rec['error'] = exc
        self.checkpoints.append(rec)
        return rec

    def start_from(self, data, medium, wait_base=0, create_task=True, loader=None):
        """Restore a process from serialised ``data`` into this (fresh) loop and attach the monitors."""
        from . import media

        with contextlib.nullcontext() if self.decoy is not None else self.loop.as_running():
            proc = media.load(data, medium, self.loop, loader=loader)
        pid = proc.pid
        self.world.incarnation[pid] = self.world.incarnation.get(pid, 0) + 1
        self.wait_base = wait_base
        self.attach(proc)
        self.n_waits_resumed = wait_base - 1 if proc.state.value == 'waiting' else wait_base
        self.sample('restored')
        if create_task and not proc.has_terminated():
            self.launch_task()
        return proc

    # -- observation -------------------------------------------------------------------------
    def sample(self, why):
        p = self.proc
        fut = p.future()
        rec = (
            why,
            p.state.value,
            p.paused,
            p.status,
            p.is_killing,
            p.has_terminated(),
            fut.done(),
            self.task.done() if self.task is not None else None,
            outcome_signature(p),
        )
        self.samples.append(rec)
        self.world.extra['n_samples'] = len(self.samples)
        return rec

    @property
    def state(self):
        return self.proc.state.value

    def phase(self):
        p = self.proc
        if p.has_terminated():
            return 'terminated'
        if p.paused:
            return 'paused'
        tr = self.world.trace.get(p.pid, [])
        n_enter = sum(1 for e in tr if e['k'] == 'enter')
        n_exit = sum(1 for e in tr if e['k'] == 'exit')
        if n_enter > n_exit:
            return 'in_step'
        if p.state == ProcessState.CREATED:
            return 'created'
        if p.state == ProcessState.WAITING:
            return 'waiting'
        return 'between'

    def epoch(self):
        tr = self.world.trace.get(self.proc.pid, [])
        return (len(self.transitions), sum(1 for e in tr if e['k'] in ('enter', 'exit')))

    # -- driving -----------------------------------------------------------------------------
    def tick(self, n=1):
        ran = 0
        for _ in range(n):
            if not self.loop.step_one():
                break
            ran += 1
            self.sample('tick')
        return ran

    def drain(self, max_ticks=5000):
        n = 0
        while n < max_ticks and self.loop.step_one():
            n += 1
            self.sample('tick')
        if n >= max_ticks:
            self.harness_errors.append('drain budget exhausted')
        return n

    def event(self, ev, who='ext'):
        """Inject one external event."""
        kind = ev[0]
        if kind == 'tick':
            ran = self.tick(ev[1])
            self.events.append({'ev': ev, 'ran': ran})
            return None
        if kind == 'ext_soon':
            # whoever holds the process schedules a callback on it (also before its first step)
            mode, tag = ev[1], ev[2]
            proc = self.proc
            pid = proc.pid

            def callback():
                from plumpy.processes import Process as _P

                self.world.tr(pid, {'k': 'cb', 'tag': tag, 'cur': _P.current() is proc, 'state': proc.state.value})
                programs._hook_point(proc, 'cb:' + tag, 'pre')
                if mode == 'raise':
                    exc = programs.ProgError(tag)
                    self.world.extra.setdefault('cb_excs', {}).setdefault(tag, []).append(exc)
                    raise exc

            with self.loop.as_running():
                try:
                    proc.call_soon(callback)
                except Exception as exc:  # noqa: BLE001
                    self.harness_errors.append(f'call_soon raised {exc!r}')
            self.events.append({'ev': ev})
            self.sample(kind)
            return None
        if kind == 'close':
            # the owner declares that the process will not be run any more (public close(), also on a live process):
            # it drops the lifecycle callbacks, later control calls still work on the bare state machine
            if self.close_live_at is None and not self.proc.has_terminated():
                self.close_live_at = len(self.samples)
            with self.loop.as_running():
                try:
                    self.proc.close()
                    # close() dropped the harness's observer with everything else: look on
                    if self._entered not in self.proc._event_callbacks.get(StateEventHook.ENTERED_STATE, []):
                        self.proc.add_state_event_callback(StateEventHook.ENTERED_STATE, self._entered)
                except Exception as exc:  # noqa: BLE001
                    self.harness_errors.append(f'close() raised {exc!r}')
            self.events.append({'ev': ev})
            self.sample(kind)
            return None
        if kind == 'killw':
            # a kill request whose caller gives up on it at once (see 'withdraw')
            self.event(['kill', ev[1] if len(ev) > 1 else None], who=who)
            return self.event(['withdraw', 'kill'], who=who)
        if kind == 'withdraw':
            # the caller gives up waiting for its last pending kill (asyncio.wait_for(proc.kill(), t) timing out cancels
            # the future that kill() returned): that request is withdrawn, the process stays controllable
            done = False
            target = ev[1] if len(ev) > 1 else 'kill'
            for rec in reversed(self.world.futs):
                fut = rec.get('_fut')
                if rec['what'] == target and fut is not None and not fut.done():
                    with self.loop.as_running():
                        fut.cancel()
                    for other in self.world.futs:
                        # every kill request that is pending on this live process - repeated kill() calls and the one
                        # a cancelled process future turns into - is carried by this one action: they share its fate
                        # (the same holds for repeated pause() calls)
                        if (target == 'kill' and other['what'] in ('kill', 'cancel')) or (target == 'pause' and other['what'] == 'pause' and other.get('_fut') is fut):
                            other['withdrawn'] = True
                    done = True
                    break
            self.events.append({'ev': ev, 'done': done})
            self.sample(kind)
            return None
        if kind == 'cancel_task':
            # the caller gives up waiting (e.g. asyncio.wait_for timed out): the task stepping the process is cancelled
            if self.task is not None and not self.task.done():
                with self.loop.as_running():
                    self.task.cancel()
                self.harness_cancelled = self.task
            self.events.append({'ev': ev})
            self.drain()
            self.sample(kind)
            return None
        if kind == 'reload':
            # checkpoint, abandon the instance, load the checkpoint into the same loop and carry on (only at quiescent
            # points without a user step in flight: an in-flight step cannot be checkpointed)
            self.drain()
            done = False
            if self.phase() in ('created', 'waiting', 'paused') and not self.loop.pending():
                import pickle

                from plumpy import persistence

                old = self.proc
                try:
                    with self.loop.as_running():
                        data = pickle.dumps(persistence.Bundle(old))
                except Exception:  # noqa: BLE001 - not savable here (a workchain waiting for live futures): no reload
                    self.events.append({'ev': ev, 'done': False, 'unsavable': True})
                    self.sample(kind)
                    return None
                with self.loop.as_running():
                    if self.task is not None and not self.task.done():
                        self.task.cancel()
                self.drain()
                with self.loop.as_running():
                    proc = pickle.loads(data).unbundle(persistence.LoadSaveContext(loop=self.loop))
                self.world.incarnation[proc.pid] = self.world.incarnation.get(proc.pid, 0) + 1
                self.abandoned = getattr(self, 'abandoned', []) + [old]
                self.follow_up = None
                self.cleanups = [Cleanup(c.raises) for c in self.cleanups]
                self.attach(proc)
                self.launch_task()
                done = True
                serial = self._wait_serial()
                if proc.state.value == 'waiting' and serial in self.delivered:
                    # a wake-up that was delivered but not yet consumed lives in a future, which a checkpoint cannot
                    # hold: external wake-ups are replayed after a restore (as C08 states)
                    with self.loop.as_running():
                        control(proc, 'resume', self.delivered[serial], who='replay')
            self.events.append({'ev': ev, 'done': done})
            self.sample(kind)
            return None
        if kind == 'restep':
            if (self.task is None or self.task.done()) and not self.proc.has_terminated():
                self.launch_task()
            self.events.append({'ev': ev})
            self.sample(kind)
            return None
        if kind in ('open', 'wcfut'):
            with self.loop.as_running():
                self.world.open_gate(self.proc.pid if kind == 'open' else ('wcfut', self.proc.pid), ev[1])
            self.events.append({'ev': ev})
            self.sample(kind)
            return None
        phase = self.phase()
        epoch = self.epoch()
        if kind == 'resume' and self.state == 'waiting':
            serial = self._wait_serial()
            self.delivered.setdefault(serial, ev[1] if len(ev) > 1 else NOVALUE)
            self.n_waits_resumed = max(self.n_waits_resumed, serial)
        arg = ev[1] if len(ev) > 1 else (NOVALUE if kind == 'resume' else None)
        if kind == 'resume' and isinstance(arg, (dict, list)):
            arg = programs.dec(arg)
        # (own-loop mode: the request comes from synchronous code while no loop is running)
        with contextlib.nullcontext() if self.decoy is not None else self.loop.as_running():
            rec = control(self.proc, kind, arg, who=who)
        rec['phase'] = phase
        rec['epoch'] = epoch
        rec['sample'] = len(self.samples)
        self.events.append({'ev': ev, 'rec': rec['seq']})
        self.sample(kind)
        return rec

    def run_schedule(self, schedule=None):
        for ev in schedule if schedule is not None else self.case.get('schedule', []):
            self.event(ev)

    def settle(self, play=False, resumes=None, open_gates=True, max_rounds=8, final_play=True):
        """Completion phase: drain; then repeatedly enable what is allowed and drain again.

        ``resumes``: list of values; the j-th value is delivered (once) when the process sits in its j-th
        not-yet-resumed WAITING state.  Never re-delivers a wake-up.
        """
        for _ in range(max_rounds):
            self.drain()
            if self.proc.has_terminated():
                break
            progressed = False
            if open_gates:
                with self.loop.as_running():
                    if self.world.open_all_gates():
                        progressed = True
                        self.sample('open*')
            if play and self.proc.paused:
                self.event(['play'], who='settle')
                progressed = True
            if resumes is not None and self.state == 'waiting' and not self.proc.paused:
                serial = self._wait_serial()
                if serial > self.n_waits_resumed and serial - 1 < len(resumes):
                    self.event(['resume', resumes[serial - 1]], who='settle')
                    progressed = True
            if not progressed:
                break
        if play and final_play and self.proc.paused:
            # every run is completed by a final play, also when the process terminated while a pause was in effect
            self.event(['play'], who='settle')
        self.drain()
        if open_gates:
            # user code of a step that is still in flight (the process was terminated under it) must be able to finish
            for _ in range(6):
                with self.loop.as_running():
                    opened = self.world.open_all_gates()
                if not opened:
                    break
                self.drain()

    def _wait_serial(self):
        return self.wait_base + sum(1 for t in self.transitions if t[1] == 'waiting')

    # -- results -----------------------------------------------------------------------------
    def views(self):
        """All public views of the outcome, each as a JSON-able description; never raises."""
        p = self.proc

        def view(fn):
            try:
                return ['ok', fn()]
            except BaseException as exc:  # noqa: BLE001
                return ['raise', type(exc).__name__, exc]

        fut = p.future()
        out = {
            # read before the harness touches the future: True = its exception was never retrieved, which asyncio
            # reports to the loop's exception handler whenever the future happens to be collected
            'future_unretrieved': bool(getattr(fut, '_log_traceback', False)),
            'state': p.state.value,
            'terminated': p.has_terminated(),
            'future_done': fut.done(),
            'future_cancelled': fut.cancelled(),
            'result': view(p.result),
            'successful': view(p.successful),
            'is_successful': view(lambda: p.is_successful),
            'killed': view(p.killed),
            'killed_msg': view(p.killed_msg),
            'exception': view(p.exception),
            'outputs': p.outputs,
            'paused': p.paused,
            'status': p.status,
        }
        if fut.done() and not fut.cancelled():
            out['future_exception'] = view(fut.exception)
            out['future_result'] = view(fut.result)
        try:
            p.add_cleanup(lambda: None)
            out['closed'] = False
        except ClosedError:
            out['closed'] = True
        except Exception as exc:  # noqa: BLE001
            out['closed'] = f'error:{type(exc).__name__}'
        if self.decoy is not None:
            # what was put on the thread's default loop although the process runs on its own: callbacks and timers
            out['decoy_scheduled'] = len(self.decoy._ready) + len(self.decoy._scheduled)
            out['loop_is_own'] = p.loop is self.loop
            out['future_loop_is_own'] = fut.get_loop() is self.loop
        if self.task is not None:
            out['task_harness_cancelled'] = getattr(self, 'harness_cancelled', None) is self.task
            out['task_done'] = self.task.done()
            if self.task.done():
                out['task_cancelled'] = self.task.cancelled()
                out['task_exception'] = None if self.task.cancelled() else self.task.exception()
        return out

    def history(self):
        """JSON-able history for replay files and evidence samples."""
        futs = []
        for rec in self.world.futs:
            item = {k: v for k, v in rec.items() if not k.startswith('_')}
            fut = rec.get('_fut')
            if fut is not None:
                item['fut'] = describe_future(fut)
            futs.append(item)
        return {
            'events': [e['ev'] for e in self.events],
            'calls': futs,
            'transitions': [[a, b] for a, b, _ in self.transitions],
            'steps': [
                [e['step'], e['args'], e['kwargs']] for e in self.world.trace.get(self.proc.pid, []) if e['k'] == 'enter'
            ]
            if self.proc is not None
            else [],
            'final': self.proc.state.value if self.proc is not None else None,
            'escapes': [[c['message'][:60], c['exc_type'], c['exc_str']] for c in self.loop.escapes()],
        }


def outcome_signature(proc):
    """Identity of the outcome of a terminated process (None while live): must never change once it exists."""
    state = proc.state.value
    if state == 'excepted':
        exc = proc.exception()
        return ('excepted', type(exc).__name__, id(exc))
    if state == 'killed':
        msg = proc.killed_msg()
        return ('killed', (msg or {}).get('message') if isinstance(msg, dict) or msg is None else repr(msg))
    if state == 'finished':
        return ('finished', repr(proc.result())[:80], proc.is_successful)
    return None


def make_process_class(case):
    if 'outline' in case:
        from . import wc

        return wc.make_workchain(case['outline'], case.get('behaviour', {}))
    return programs.make_class(case['program'])


def plain(value):
    """Nested mappings (AttributesFrozendict, AttributesDict, dict) as plain dicts, for comparison."""
    from collections.abc import Mapping

    if isinstance(value, Mapping):
        return {k: plain(v) for k, v in value.items()}
    if hasattr(value, '__dict__') and type(value).__name__ == 'AttributesDict':
        return {k: plain(v) for k, v in vars(value).items()}
    return value


def observe(proc):
    """Public accessors of a process, comparable between an original and its loaded copy."""

    def view(fn):
        try:
            return ['ok', fn()]
        except BaseException as exc:  # noqa: BLE001
            return ['raise', type(exc).__name__, list(exc.args)]

    out = {
        'pid': proc.pid,
        'state': proc.state.value,
        'raw_inputs': plain(proc.raw_inputs) if proc.raw_inputs is not None else None,
        'inputs': plain(proc.inputs) if proc.inputs is not None else None,
        'outputs': plain(proc.outputs),
        'ctx': plain(proc.ctx) if getattr(proc, 'ctx', None) is not None else None,
        'status': proc.status,
        'paused': proc.paused,
        'creation_time': proc.creation_time,
    }
    if proc.has_terminated():
        exc = proc.exception()
        fut = proc.future()
        out.update(
            {
                'result': view(proc.result),
                'successful': view(proc.successful),
                'is_successful': proc.is_successful,
                'killed': proc.killed(),
                'killed_msg': view(proc.killed_msg),
                'exception': None if exc is None else [type(exc).__name__, list(exc.args)],
                'future_done': fut.done(),
                'future': view(fut.result) if fut.done() and not fut.cancelled() else None,
            }
        )
    return out


def describe_future(fut):
    if not fut.done():
        return 'pending'
    if fut.cancelled():
        return 'cancelled'
    exc = fut.exception()
    if exc is not None:
        return f'exception:{type(exc).__name__}'
    return f'result:{fut.result()!r}'
