"""Harness object loaders.  They extend DefaultObjectLoader and fall back to it for identifiers they do not own, as
every loader in the repository's tests does (nested Savables are saved with default identifiers)."""

from plumpy import loaders


KNOWN_PREFIXES = ('tag!', 'other!', 'arg!')


class TagLoader(loaders.DefaultObjectLoader):
    PREFIX = 'tag!'
    loads = 0
    owned_loads = 0
    identifies = 0

    def __len__(self):
        # the harness loaders look like registries that are (still) empty: they are falsy, and loaders all the same
        return 0

    def identify_object(self, obj):
        type(self).identifies += 1
        return self.PREFIX + super().identify_object(obj)

    def load_object(self, identifier):
        type(self).loads += 1
        if identifier.startswith(self.PREFIX):
            type(self).owned_loads += 1
            identifier = identifier[len(self.PREFIX) :]
        else:
            # identifiers written by another harness loader (nested Savables are identified by the global loader)
            for prefix in KNOWN_PREFIXES:
                if identifier.startswith(prefix):
                    identifier = identifier[len(prefix) :]
                    break
        return super().load_object(identifier)

    @classmethod
    def reset(cls):
        cls.loads = cls.owned_loads = cls.identifies = 0


class OtherLoader(TagLoader):
    PREFIX = 'other!'
    loads = 0
    owned_loads = 0
    identifies = 0


class ArgLoader(TagLoader):
    """A loader that is configured through its constructor (a registry): it cannot be instantiated without arguments,
    so it only works where it is handed over in the context."""

    PREFIX = 'arg!'
    loads = 0
    owned_loads = 0
    identifies = 0

    def __init__(self, registry):
        super().__init__()
        self.registry = registry


class StrictLoader(loaders.DefaultObjectLoader):
    """A loader with an allow-list (what a service does that must not instantiate arbitrary classes named in a
    checkpoint): identifiers that are not on the list are refused with ValueError, as the interface demands."""

    def __init__(self, allowed=()):
        self.allowed = set(allowed)
        self.refused = []

    def load_object(self, identifier):
        if identifier not in self.allowed:
            self.refused.append(identifier)
            raise ValueError(f'identifier `{identifier}` is not allowed')
        return super().load_object(identifier)


class RegistryLoader(TagLoader):
    """A loader with a registry of classes that have no importable name (built by a class factory): it can name and
    construct them; everything else goes the TagLoader way."""

    PREFIX = 'tag!'
    loads = 0
    owned_loads = 0
    identifies = 0

    def __init__(self, registry=None):
        super().__init__()
        self.registry = dict(registry or {})

    def identify_object(self, obj):
        for name, cls in self.registry.items():
            if cls is obj:
                TagLoader.identifies += 1
                return 'reg!' + name
        return super().identify_object(obj)

    def load_object(self, identifier):
        if identifier.startswith('reg!'):
            TagLoader.loads += 1
            TagLoader.owned_loads += 1
            return self.registry[identifier[4:]]
        return super().load_object(identifier)
