"""E5a -- reference interpreter of a WorkChain outline (independent of plumpy's steppers)."""


class _Stop(Exception):
    def __init__(self, value):
        super().__init__()
        self.value = value


def interpret(outline, behaviour, max_calls=400):
    """Return (calls, result, last_value_was_tocontext).

    calls  = ordered list of ('step', name) / ('pred', name, value)
    result = the return_ code, or the value of the last executed step that stopped the chain, or None when the
             chain fell off the end of the outline.
    """
    rets = behaviour.get('rets', {})
    preds = behaviour.get('preds', {})
    counts = {}
    calls = []
    state = {'last_tc': False}

    def nxt(table, name, default):
        k = counts.get(name, 0)
        counts[name] = k + 1
        seq = table.get(name, [])
        return seq[k] if k < len(seq) else default

    def run_pred(name):
        value = bool(nxt(preds, name, False))
        calls.append(('pred', name, value))
        return value

    def run_body(body):
        for ins in body:
            if len(calls) > max_calls:
                raise RuntimeError('reference interpreter: call budget exceeded')
            kind = ins[0]
            if kind == 'step':
                value = nxt(rets, ins[1], None)
                calls.append(('step', ins[1]))
                is_tc = isinstance(value, dict) and '__tc__' in value
                state['last_tc'] = is_tc
                if isinstance(value, dict) and '__raise__' in value:
                    raise _Stop(('raise', value['__raise__']))
                if value is not None and not is_tc:
                    raise _Stop(('value', value))
            elif kind == 'return':
                raise _Stop(('value', ins[1] if len(ins) > 1 else None))
            elif kind == 'while':
                while run_pred(ins[1]):
                    run_body(ins[2])
            elif kind == 'if':
                taken = False
                for pred, sub in ins[1]:
                    if run_pred(pred):
                        run_body(sub)
                        taken = True
                        break
                if not taken and ins[2] is not None:
                    run_body(ins[2])
            else:
                raise ValueError(ins)

    try:
        run_body(outline)
    except _Stop as stop:
        return calls, stop.value, False
    return calls, ('value', None), state['last_tc']
