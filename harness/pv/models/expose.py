"""E5c -- reference model of exposing ports: rule selection over a source tree and the resulting destination tree."""

import copy

from . import ports as pm

NS_ATTRS = ('required', 'dynamic', 'valid_type', 'validator', 'populate_defaults', 'help')


def default_ns():
    tree = pm.ns({})
    tree['help'] = None
    return tree


def _norm(tree):
    tree = copy.deepcopy(tree)
    tree.setdefault('help', None)
    if tree['kind'] == 'ns':
        for name, sub in tree['ports'].items():
            tree['ports'][name] = _norm(sub)
    return tree


def select(source, include=None, exclude=None):
    """Ports of ``source`` selected by the rules (paths relative to source), as a new ports dict."""
    out = {}
    for name, sub in source['ports'].items():
        if exclude and name in exclude:
            continue
        if sub['kind'] == 'ns':
            if include:
                if name in include:
                    out[name] = _norm(sub)  # the rule names the namespace: the whole subtree
                    continue
                inner = [r[len(name) + 1 :] for r in include if r.startswith(name + '.')]
                if not inner:
                    continue
                copy_ns = _norm(sub)
                copy_ns['ports'] = select(sub, include=inner)
                out[name] = copy_ns
            else:
                inner_ex = [r[len(name) + 1 :] for r in (exclude or []) if r.startswith(name + '.')]
                copy_ns = _norm(sub)
                copy_ns['ports'] = select(sub, exclude=inner_ex or None)
                out[name] = copy_ns
        else:
            if include and name not in include:
                continue
            out[name] = _norm(sub)
    return out


def expose(dest, source, namespace=None, include=None, exclude=None, options=None):
    """Return the destination tree after exposing ``source`` into it.  Raises ValueError as the real thing must."""
    if include is not None and exclude is not None:
        raise ValueError('exclude and include are mutually exclusive')
    dest = _norm(dest)
    target = dest
    if namespace:
        for part in namespace.split('.'):
            sub = target['ports'].get(part)
            if sub is None:
                sub = default_ns()
                target['ports'][part] = sub
            elif sub['kind'] != 'ns':
                raise ValueError('a port is in the way')
            target = sub
    options = dict(options or {})
    for attr in NS_ATTRS:
        inherited = pm.effective_dynamic(source) if attr == 'dynamic' else source.get(attr)
        target[attr] = options.pop(attr, inherited)
    if options:
        raise ValueError('unsupported namespace option')
    if target['valid_type'] is not None:
        target['dynamic'] = True
    for name, sub in select(source, include=include or None, exclude=exclude or None).items():
        target['ports'][name] = sub
    return dest


def describe_model(tree):
    tree = _norm(tree)
    if tree['kind'] == 'ns':
        return {
            'kind': 'ns',
            'required': tree['required'],
            'dynamic': tree['dynamic'] or tree['valid_type'] is not None,
            'valid_type': tree['valid_type'],
            'validator': tree['validator'],
            'populate_defaults': tree['populate_defaults'],
            'help': tree['help'],
            'ports': {name: describe_model(sub) for name, sub in tree['ports'].items()},
        }
    required = tree['required']
    out = {'kind': 'port', 'required': required, 'valid_type': tree['valid_type'], 'validator': tree['validator'], 'help': tree['help']}
    if 'default' in tree and tree.get('io') != 'output':
        out['default'] = None if tree.get('default') is None else tree['default'][1]
        if tree.get('default') is not None:
            out['required'] = False
    return out


def describe_real(port, io='input'):
    from plumpy import ports as real

    rtypes = {v: k for k, v in pm.TYPES.items()}
    rvalid = {v: k for k, v in pm.VALIDATORS.items()}
    if isinstance(port, real.PortNamespace):
        return {
            'kind': 'ns',
            'required': port.required,
            'dynamic': port.dynamic,
            'valid_type': rtypes.get(port.valid_type, repr(port.valid_type)),
            'validator': rvalid.get(port.validator, repr(port.validator)),
            'populate_defaults': port.populate_defaults,
            'help': port.help,
            'ports': {name: describe_real(sub, io) for name, sub in port.items()},
        }
    out = {
        'kind': 'port',
        'required': port.required,
        'valid_type': rtypes.get(port.valid_type, repr(port.valid_type)),
        'validator': rvalid.get(port.validator, repr(port.validator)),
        'help': port.help,
    }
    if io == 'input':
        if port.has_default():
            default = port.default
            out['default'] = default() if callable(default) else copy.deepcopy(default)
        else:
            out['default'] = None
    return out
