"""E5b -- spec-as-data, builder for real plumpy specs, and the independent reference model of port validation.

tree (namespace) = {"kind": "ns", "required": bool, "dynamic": bool, "valid_type": T, "validator": V, "populate_defaults": bool,
                    "ports": {name: tree | port}}
port             = {"kind": "port", "required": bool, "valid_type": T, "validator": V, "default": ["plain", v] | ["callable", v] | None}
T = None | "int" | "str" | "num" | "dict"          V = None | name of a validator below
"""

import copy

TYPES = {None: None, 'int': int, 'str': str, 'num': (int, float), 'dict': dict}


# -- validators (total functions: they accept any value) ---------------------------------------
def v_nonneg(value, _port):
    if isinstance(value, (int, float)) and not isinstance(value, bool) and value < 0:
        return 'negative'
    return None


def v_short(value, _port):
    if isinstance(value, (str, list, tuple, dict)) and len(value) > 1:
        return 'too long'
    return None


def v_never(_value, _port):
    return 'never valid'


def v_always(_value, _port):
    return None


def v_has_a(value, _port):
    try:
        return None if 'a' in value else 'key a missing'
    except TypeError:
        return 'not a container'


def v_small(value, _port):
    try:
        return None if len(value) <= 2 else 'too many entries'
    except TypeError:
        return None


def v_neg_empty(value, _port):
    # rejects with an empty message (e.g. `return str(exc)` around a bare assert): any non-None result is a rejection
    if isinstance(value, (int, float)) and not isinstance(value, bool) and value < 0:
        return ''
    return None


def v_legacy_has_a(value):
    # the deprecated one-argument signature (plumpy warns and still calls it)
    try:
        return None if 'a' in value else 'key a missing'
    except TypeError:
        return 'not a container'


def v_legacy_nonneg(value):
    if isinstance(value, (int, float)) and not isinstance(value, bool) and value < 0:
        return 'negative'
    return None


def v_typed_nonneg(value, _port):
    # relies on the declared type of its port (only used on ports with valid_type int / num): it is never handed a
    # value that failed the type check
    return 'negative' if value < 0 else None


VALIDATORS = {
    None: None,
    'typed_nonneg': v_typed_nonneg,
    'neg_empty': v_neg_empty,
    'legacy_has_a': v_legacy_has_a,
    'legacy_nonneg': v_legacy_nonneg,
    'nonneg': v_nonneg,
    'short': v_short,
    'never': v_never,
    'always': v_always,
    'has_a': v_has_a,
    'small': v_small,
}


def _const(value):
    def default():
        return copy.deepcopy(value)

    return default


class _Factory:
    """A default factory that is a callable object, not a function (like a class, a functools.partial, ...)."""

    def __init__(self, value):
        self.value = value

    def __call__(self):
        return copy.deepcopy(self.value)


def _factory(mode, value):
    import functools

    if mode == 'factory':
        return _Factory(value)
    if mode == 'partial':
        return functools.partial(copy.deepcopy, value)
    return _const(value)


COUNTER = [0]  # reset by the check at the start of a case; NOT reset by a restore (that is the point)


def _counter(start):
    """A non-constant callable default (a ticket number): every call gives the next value (reset per case)."""

    def default():
        COUNTER[0] += 1
        return start + COUNTER[0]

    return default


# -- building the real thing -------------------------------------------------------------------
def ns(ports=None, required=True, dynamic=False, valid_type=None, validator=None, populate_defaults=True):
    return {
        'kind': 'ns',
        'required': required,
        'dynamic': dynamic,
        'valid_type': valid_type,
        'validator': validator,
        'populate_defaults': populate_defaults,
        'ports': ports or {},
    }


def port(required=True, valid_type=None, validator=None, default=None):
    return {'kind': 'port', 'required': required, 'valid_type': valid_type, 'validator': validator, 'default': default}


_SEP_SPECS = {}


_STRICT_SPECS = {}


def strict_spec_class(base=None):
    """A ProcessSpec whose explicitly declared output ports are of an application-defined port class that refuses None
    (the documented extension hook ProcessSpec.OUTPUT_PORT_TYPE); the model marks such ports with ``strict``."""
    from plumpy import InputPort, OutputPort, ProcessSpec
    from plumpy.ports import PortValidationError, breadcrumbs_to_port

    base = base or ProcessSpec
    if base not in _STRICT_SPECS:

        class NotNoneOutputPort(OutputPort):
            def validate(self, value, breadcrumbs=()):
                if value is None:
                    return PortValidationError('None is not a value', breadcrumbs_to_port((*breadcrumbs, self.name)))
                return super().validate(value, breadcrumbs)

        class NotNoneInputPort(InputPort):
            # ... the same for declared input ports (ProcessSpec.INPUT_PORT_TYPE)
            def validate(self, value, breadcrumbs=()):
                if value is None:
                    return PortValidationError('None is not a value', breadcrumbs_to_port((*breadcrumbs, self.name)))
                return super().validate(value, breadcrumbs)

        class NotNoneNamespace(base.PORT_NAMESPACE_TYPE):
            # ... and a namespace class of its own whose rule for dynamic values refuses None as well (at any depth)
            def validate_dynamic_ports(self, port_values, breadcrumbs=()):
                def has_none(value):
                    if isinstance(value, dict):
                        return any(has_none(sub) for sub in value.values())
                    return value is None

                if has_none(port_values):
                    return PortValidationError('None is not a value', breadcrumbs_to_port((*breadcrumbs, self.name)))
                return super().validate_dynamic_ports(port_values, breadcrumbs)

        _STRICT_SPECS[base] = type('StrictSpec', (base,), {'INPUT_PORT_TYPE': NotNoneInputPort, 'OUTPUT_PORT_TYPE': NotNoneOutputPort, 'PORT_NAMESPACE_TYPE': NotNoneNamespace})
    return _STRICT_SPECS[base]


def mark_strict(tree):
    """The model of a tree declared under strict_spec_class(): every explicit port refuses None."""
    tree = copy.deepcopy(tree)

    def walk(node):
        node['strict_ns'] = True
        for sub in node['ports'].values():
            if sub['kind'] == 'ns':
                walk(sub)
            else:
                sub['strict'] = True

    walk(tree)
    return tree


def spec_class_for(sep, base=None):
    """A ProcessSpec whose port namespaces use ``sep`` as the namespace separator (the documented extension hooks
    PortNamespace.NAMESPACE_SEPARATOR / ProcessSpec.PORT_NAMESPACE_TYPE / Process._spec_class)."""
    from plumpy import PortNamespace, ProcessSpec

    base = base or ProcessSpec
    key = (sep, base)
    if key not in _SEP_SPECS:
        ns_cls = type('SepNamespace', (base.PORT_NAMESPACE_TYPE,), {'NAMESPACE_SEPARATOR': sep})
        _SEP_SPECS[key] = type('SepSpec', (base,), {'PORT_NAMESPACE_TYPE': ns_cls})
    return _SEP_SPECS[key]


def build_namespace(spec, which, tree):
    """Declare ``tree`` as the inputs (which='input') or outputs (which='output') of ProcessSpec ``spec``."""
    top = spec.inputs if which == 'input' else spec.outputs
    top.required = tree['required']
    top.dynamic = tree['dynamic']
    if tree['valid_type'] is not None:
        top.valid_type = TYPES[tree['valid_type']]
    top.validator = VALIDATORS[tree['validator']]
    top.populate_defaults = tree['populate_defaults']
    if tree.get('help') is not None:
        top.help = tree['help']
    _declare(spec, which, '', tree)


def _declare(spec, which, prefix, tree):
    for name, sub in tree['ports'].items():
        path = prefix + name
        if sub['kind'] == 'ns':
            kwargs = {
                'required': sub['required'],
                'dynamic': sub['dynamic'],
                'validator': VALIDATORS[sub['validator']],
                'populate_defaults': sub['populate_defaults'],
            }
            if sub['valid_type'] is not None:
                kwargs['valid_type'] = TYPES[sub['valid_type']]
            if sub.get('help') is not None:
                kwargs['help'] = sub['help']
            if sub.get('implicit'):
                pass  # never declared itself: created with the constructor defaults by the declaration of what it holds
            elif sub.get('via') == 'create':
                # declared with its full nested name on the top-level namespace (its parents may not exist yet)
                (spec.inputs if which == 'input' else spec.outputs).create_port_namespace(path, **kwargs)
            else:
                getattr(spec, which + '_namespace')(path, **kwargs)
            _declare(spec, which, path + spec.namespace_separator, sub)
        else:
            kwargs = {'required': sub['required'], 'validator': VALIDATORS[sub['validator']]}
            if sub['valid_type'] is not None:
                kwargs['valid_type'] = TYPES[sub['valid_type']]
            if sub.get('help') is not None:
                kwargs['help'] = sub['help']
            if which == 'input' and sub.get('default') is not None:
                mode, value = sub['default']
                kwargs['default'] = _counter(value) if mode == 'counter' else (_factory(mode, value) if mode in ('callable', 'factory', 'partial') else copy.deepcopy(value))
            getattr(spec, which)(path, **kwargs)


def build_spec(spec, sp):
    if 'inputs' in sp:
        build_namespace(spec, 'input', sp['inputs'])
    else:
        spec.inputs.dynamic = True
    if 'outputs' in sp:
        build_namespace(spec, 'output', sp['outputs'])
    else:
        spec.outputs.dynamic = True
    for path, opts in sp.get('redeclare', ()):
        # an output namespace declared a second time (a subclass' define tightening what its base class declared)
        kwargs = {'required': opts['required'], 'dynamic': opts['dynamic'], 'validator': VALIDATORS[opts['validator']], 'populate_defaults': opts['populate_defaults']}
        if opts['valid_type'] is not None:
            kwargs['valid_type'] = TYPES[opts['valid_type']]
        spec.output_namespace(spec.namespace_separator.join(path), **kwargs)
    for which, path, new in sp.get('refile', ()):
        # a port re-filed under another key after the declaration (a subclass' define renaming what its base declared)
        target = spec.inputs if which == 'input' else spec.outputs
        for name in path[:-1]:
            target = target[name]
        target[new] = target.pop(path[-1])
    for path, attr, value in sp.get('adjust', ()):
        # a spec adjusted after the declaration, through the public setters of the port (a subclass' define does this)
        target = spec.inputs
        for name in path:
            target = target[name]
        if attr == 'default':
            target.default = copy.deepcopy(value[1])
        elif attr == 'valid_type':
            target.valid_type = TYPES[value]
        elif attr == 'validator':
            target.validator = VALIDATORS[value]
        else:
            raise ValueError(attr)


def refiled(tree, refile):
    """The tree after ports were re-filed under another key of their namespace (ns[new] = ns.pop(old)): a port is found,
    validated and populated under the key it is filed under, whatever name it was created with."""
    tree = copy.deepcopy(tree)
    for path, new in refile or ():
        target = tree
        for name in path[:-1]:
            target = target['ports'][name]
        ports = target['ports']
        target['ports'] = {(new if key == path[-1] else key): val for key, val in ports.items()}
    return tree


def redeclared(tree, redeclare):
    """The tree after port-less namespaces were declared again with other options (the last declaration counts)."""
    tree = copy.deepcopy(tree)
    for path, opts in redeclare or ():
        target = tree
        for name in path[:-1]:
            target = target['ports'][name]
        assert not target['ports'][path[-1]]['ports']
        target['ports'][path[-1]] = ns({}, **opts)
    return tree


def adjusted(tree, adjust):
    """The tree that describes the spec after ``adjust`` was applied."""
    tree = copy.deepcopy(tree)
    for path, attr, value in adjust or ():
        target = tree
        for name in path:
            target = target['ports'][name]
        target[attr] = copy.deepcopy(value)
    return tree


# -- the reference model -----------------------------------------------------------------------
ABSENT = object()


class Reject(Exception):
    pass


def effective_required(p):
    if p['kind'] == 'port' and p.get('default') is not None:
        return False
    return p['required']


def effective_dynamic(tree):
    return tree['dynamic'] or tree['valid_type'] is not None


def parse(tree, values):
    """The parsed form: supplied values completed with the declared defaults."""
    if not isinstance(values, dict):
        raise Reject('namespace value is not a mapping')
    out = dict(values)
    for name, sub in tree['ports'].items():
        if name not in values:
            if sub['kind'] == 'ns':
                if not sub['populate_defaults']:
                    continue
                if sub['ports']:
                    out[name] = parse(sub, {})
                continue
            if sub.get('default') is not None:
                out[name] = copy.deepcopy(sub['default'][1])
            continue
        if sub['kind'] == 'ns':
            out[name] = parse(sub, values[name])
        else:
            out[name] = values[name]
    return out


def _call_validator(validator, value):
    import inspect

    if len(inspect.getfullargspec(validator)[0]) == 1:
        return validator(value)
    return validator(value, None)


def _type_ok(value, tname):
    return tname is None or isinstance(value, TYPES[tname])


def _check_port(p, value):
    if value is ABSENT:
        if effective_required(p):
            raise Reject('required value missing')
        return
    if p.get('strict') and value is None:
        raise Reject('None refused by the port class')
    if not _type_ok(value, p['valid_type']):
        raise Reject('wrong type')
    validator = VALIDATORS[p['validator']]
    if validator is not None and _call_validator(validator, value) is not None:
        raise Reject('validator')


def _check_dynamic(tree, value):
    """Every leaf at any dict depth must be of the namespace's type."""
    if isinstance(value, dict):
        for sub in value.values():
            _check_dynamic(tree, sub)
    elif tree.get('strict_ns') and value is None:
        raise Reject('None refused by the namespace class')
    elif not _type_ok(value, tree['valid_type']):
        raise Reject('dynamic value of wrong type')


def _has_none(value):
    if isinstance(value, dict):
        return any(_has_none(sub) for sub in value.values())
    return value is None


def validate(tree, values):
    """Raise Reject iff the (parsed) mapping does not conform to the namespace."""
    if values is ABSENT or not values:
        values = {}
    if not isinstance(values, dict):
        raise Reject('namespace value is not a mapping')
    if not values and not tree['required']:
        return
    rest = dict(values)
    for name, sub in tree['ports'].items():
        value = rest.pop(name, ABSENT)
        if sub['kind'] == 'ns':
            validate(sub, value)
        else:
            _check_port(sub, value)
    if rest and not effective_dynamic(tree):
        raise Reject('undeclared keys in a non-dynamic namespace')
    if tree.get('strict_ns') and _has_none(rest):
        raise Reject('None refused by the namespace class')
    if tree['valid_type'] is not None:
        _check_dynamic(tree, rest)
    validator = VALIDATORS[tree['validator']]
    if validator is not None and _call_validator(validator, values) is not None:
        raise Reject('namespace validator')


def accepts_inputs(tree, values):
    """(accepted, parsed form or None)"""
    try:
        parsed = parse(tree, values if values is not None else {})
        validate(tree, parsed)
        return True, parsed
    except Reject:
        return False, None


def emit(tree, path, value):
    """Model of out(path, value) on the *effective* output tree (mutated like get_port(create_dynamically=True) does).

    Returns normally when the emission is accepted, raises Reject otherwise."""
    parts = path.split('.')
    name = parts.pop()
    cur = tree
    for part in parts:
        sub = cur['ports'].get(part)
        if sub is None:
            if not effective_dynamic(cur):
                raise Reject('no such namespace')
            sub = ns({}, required=cur['required'], dynamic=effective_dynamic(cur), valid_type=cur['valid_type'], validator=cur['validator'], populate_defaults=cur['populate_defaults'])
            if cur.get('strict_ns'):
                sub['strict_ns'] = True  # namespaces created on the fly are of the class of the namespace that creates them
            cur['ports'][part] = sub
        elif sub['kind'] != 'ns':
            raise Reject('a port is in the way')
        cur = sub
    declared = cur['ports'].get(name)
    if declared is not None:
        if declared['kind'] == 'ns':
            validate(declared, value if value is not None else ABSENT)
        else:
            _check_port(declared, value)
        return
    if not effective_dynamic(cur):
        raise Reject('undeclared port in a non-dynamic namespace')
    _check_dynamic(cur, value)
