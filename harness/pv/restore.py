"""Reference runs with checkpoints at every state entry, and continuation from a checkpoint (C07, C08, C13)."""

from .exec import Exec

DEFAULT_RESUMES = ['r%d' % i for i in range(1, 97)]


def summary(ex):
    """Comparable (JSON-able) outcome of a run."""
    views = ex.views()
    proc = ex.proc

    def norm(view):
        if view[0] == 'ok':
            return ['ok', view[1]]
        exc = view[2]
        return ['raise', view[1], [repr(a) for a in getattr(exc, 'args', ())]]

    ctx = None
    if hasattr(proc, 'ctx') and proc.ctx is not None:
        ctx = dict(vars(proc.ctx))
    exc = views['exception'][1] if views['exception'][0] == 'ok' else None
    return {
        'state': views['state'],
        'result': norm(views['result']),
        'successful': norm(views['successful']),
        'killed_msg': norm(views['killed_msg']),
        'exception': None if exc is None else [type(exc).__name__, [repr(a) for a in exc.args]],
        'outputs': views['outputs'],
        'ctx': ctx,
        'status': views['status'],
        'paused': views['paused'],
        'task_done': views.get('task_done'),
    }


def complete(ex, resumes):
    ex.settle(play=True, resumes=resumes, open_gates=True)


def run_reference(case, medium=None, resumes=None, before_complete=None, midstep=False, hook_ckpts=None):
    """Uninterrupted run; with ``medium`` a checkpoint is taken at every state entry."""
    resumes = DEFAULT_RESUMES if resumes is None else resumes
    out = {}
    with Exec(case, attach_listener=False) as ex:
        ex.capture = medium
        if not ex.start(create_task=False):
            out['construct_error'] = ex.construct_error
            return out
        if medium is not None:
            ex.checkpoint('created')
        if midstep and medium is not None:
            install_midstep(ex)
        if hook_ckpts and medium is not None:
            install_hook_ckpts(ex, hook_ckpts)
        ex.launch_task()
        if before_complete is not None:
            before_complete(ex)
        complete(ex, resumes)
        pid = ex.proc.pid
        out['steps'] = ex.world.steps(pid)
        out['trace'] = list(ex.world.trace.get(pid, []))
        out['checkpoints'] = ex.checkpoints
        out['summary'] = summary(ex)
        out['transitions'] = [(a, b) for a, b, _ in ex.transitions]
        out['escapes'] = [(c['message'][:80], c['exc_type'], c['exc_str']) for c in ex.loop.escapes()]
        out['history'] = ex.history()
    return out


def install_midstep(ex, skip_first=False):
    """Also checkpoint at the entry of every step function, before it has had any effect (a crash inside a step)."""
    state = {'skip': skip_first}

    def from_hook(proc, hook, pos):
        if pos == 'entry' and hook.startswith('step:') and proc is ex.proc:
            if state['skip']:
                state['skip'] = False
                return  # a run restored from a mid-step checkpoint re-enters that step: not a new crash point
            ex.checkpoint('midstep:' + hook[5:])

    ex.world.extra['hook_listener'] = from_hook


def install_hook_ckpts(ex, hooks):
    """Checkpoint from inside lifecycle hooks while CREATED or RUNNING is being left (an application that persists
    'on leaving a state'): between the return of a step and the entry of whatever comes next."""

    def from_hook(proc, hook, pos):
        if proc is ex.proc and pos == 'pre' and hook in hooks and proc.state.value in ('created', 'running'):
            ex.checkpoint('hook:' + hook)

    ex.world.extra['hook_listener'] = from_hook


def run_from(case, ckpt, medium, resumes=None, capture=False, loader=None, midstep=False):
    """Abandon everything, load the checkpoint in a fresh loop and world, continue to completion."""
    resumes = DEFAULT_RESUMES if resumes is None else resumes
    out = {}
    with Exec(case, attach_listener=False) as ex:
        ex.capture = medium if capture else None
        try:
            if midstep and capture:
                install_midstep(ex, skip_first=str(ckpt.get('why', '')).startswith('midstep'))
            ex.start_from(ckpt['data'], medium, wait_base=ckpt['waits'], loader=loader)
        except Exception as exc:  # noqa: BLE001
            out['load_error'] = exc
            return out
        complete(ex, resumes)
        pid = ex.proc.pid
        out['steps'] = ex.world.steps(pid)
        out['trace'] = list(ex.world.trace.get(pid, []))
        out['checkpoints'] = ex.checkpoints
        out['summary'] = summary(ex)
        out['escapes'] = [(c['message'][:80], c['exc_type'], c['exc_str']) for c in ex.loop.escapes()]
    return out


def entries(trace):
    """Step and predicate calls of a trace, in order."""
    out = []
    for e in trace:
        if e['k'] == 'enter':
            out.append(('step', e['step'], e['args'], e['kwargs']))
        elif e['k'] == 'pred':
            out.append(('pred', e['name'], e['value']))
    return out


def steps_after(ref, ckpt):
    """Step entries of the reference run that happened after the checkpoint was taken."""
    return [(e['step'], e['args'], e['kwargs']) for e in ref['trace'][ckpt['n_trace'] :] if e['k'] == 'enter']
