"""Serialisation media for checkpoints: in-memory deep copy, pickle, YAML."""

import copy
import pickle

import yaml
from plumpy import persistence

MEDIA = ('copy', 'pickle', 'yaml')


def bundle_of(proc, loader=None):
    ctx = persistence.LoadSaveContext(loader=loader) if loader is not None else None
    return persistence.Bundle(proc, ctx)


def save(proc, medium, loader=None):
    bundle = bundle_of(proc, loader)
    return encode(bundle, medium)


def encode(bundle, medium):
    if medium == 'copy':
        return copy.deepcopy(bundle)
    if medium == 'pickle':
        return pickle.dumps(bundle)
    if medium == 'yaml':
        return yaml.dump(bundle)
    raise ValueError(medium)


def decode(data, medium):
    if medium == 'copy':
        return copy.deepcopy(data)  # every restore gets a fresh deserialisation
    if medium == 'pickle':
        return pickle.loads(data)
    if medium == 'yaml':
        return yaml.load(data, Loader=yaml.Loader)
    raise ValueError(medium)


def load(data, medium, loop, loader=None):
    bundle = decode(data, medium)
    ctx = persistence.LoadSaveContext(loop=loop, loader=loader) if loader is not None else persistence.LoadSaveContext(loop=loop)
    return bundle.unbundle(ctx)
