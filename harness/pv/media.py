"""Serialisation media for checkpoints: in-memory deep copy, pickle, YAML."""

import copy
import pickle

import yaml
from plumpy import persistence

MEDIA = ('copy', 'pickle', 'yaml')


def bundle_of(proc, loader=None, dereference=False):
    ctx = persistence.LoadSaveContext(loader=loader) if loader is not None else None
    if dereference:
        return persistence.Bundle(proc, ctx, dereference=True)  # a bundle that shares nothing with the live process
    return persistence.Bundle(proc, ctx)


def save(proc, medium, loader=None):
    bundle = bundle_of(proc, loader)
    return encode(bundle, medium)


def encode(bundle, medium):
    if medium == 'copy':
        return copy.deepcopy(bundle)
    if medium == 'pickle':
        return pickle.dumps(bundle)
    if medium == 'yaml':
        return yaml.dump(bundle)
    raise ValueError(medium)


def decode(data, medium):
    if medium == 'copy':
        return copy.deepcopy(data)  # every restore gets a fresh deserialisation
    if medium == 'pickle':
        return pickle.loads(data)
    if medium == 'yaml':
        return yaml.load(data, Loader=yaml.Loader)
    raise ValueError(medium)


LOAD_WAYS = ('unbundle', 'load', 'recreate', 'recreate-noctx')


def load(data, medium, loop, loader=None, how='unbundle'):
    """Recreate the process through one of the public ways: Bundle.unbundle(ctx), Savable.load(bundle, ctx),
    ProcessClass.recreate_from(bundle, ctx) and ProcessClass.recreate_from(bundle) with the optional context left out
    (then the current event loop and the recorded / default loader are used)."""
    bundle = decode(data, medium)
    return load_bundle(bundle, loop, loader, how)


def load_bundle(bundle, loop, loader=None, how='unbundle'):
    ctx = persistence.LoadSaveContext(loop=loop, loader=loader) if loader is not None else persistence.LoadSaveContext(loop=loop)
    if how == 'unbundle':
        return bundle.unbundle(ctx)
    if how == 'load':
        return persistence.Savable.load(bundle, ctx)
    cls = (loader if loader is not None else persistence.loaders.get_object_loader()).load_object(persistence.Savable._get_class_name(bundle))
    if how == 'recreate':
        return cls.recreate_from(bundle, ctx)
    if how == 'recreate-noctx' and loader is None:
        return cls.recreate_from(bundle)
    return cls.recreate_from(bundle, ctx)
