"""Generated WorkChain classes from an outline AST.

outline = [instr, ...]                                  (non-empty)
instr   = ["step", name] | ["if", [[pred, body], ...], else_body|null] | ["while", pred, body]
        | ["return"] | ["return", code]
behaviour = {"rets": {step: [v, ...]}, "preds": {pred: [bool, ...]}}
   v = None | int | str | {"__tc__": {key: awaitable}}          (the k-th call returns the k-th value; then None)
   plus optional "tocontext": {step: [{key: awaitable}, ...]}    (k-th call registers these through to_context())
   awaitable = ["fut", id] | ["done", value] | ["child", program]
Call counters live in ``self.ctx`` (persisted), so step behaviour depends on persisted state only.
"""

from plumpy import WorkChain, if_, return_, while_
from plumpy.processes import Process

from . import gen_classes, world
from .programs import HookMixin, _hook_point, jkey, make_class


WorkChain.get_states_map()  # (see programs.py: base classes first)


class WcBase(HookMixin, WorkChain):
    OUTLINE = [['step', 'a']]
    BEHAVIOUR = {'rets': {}, 'preds': {}}

    @classmethod
    def define(cls, spec):
        super().define(spec)
        spec.inputs.dynamic = True
        spec.outputs.dynamic = True
        spec.outline(*[_compile(cls, ins) for ins in cls.OUTLINE])

    def _count(self, key):
        n = self.ctx.get('n_' + key, 0)
        self.ctx['n_' + key] = n + 1
        return n

    def _awaitable(self, key, spec, how):
        w = world.cur()
        kind = spec[0]
        if kind == 'fut':
            obj = w.gate(('wcfut', self.pid), spec[1])
        elif kind == 'done':
            obj = w.loop.create_future()
            obj.set_result(spec[1])
        elif kind == 'child':
            cls = make_class(spec[1])
            child_pid = spec[2] if len(spec) > 2 else None
            prebuilt = w.extra.get('prechildren', {}).get(child_pid)
            if prebuilt is not None:
                # a process the application constructed beforehand (outside any running loop, for this chain's loop):
                # the step starts it and waits for it
                obj = prebuilt
                w.loop.create_task(obj.step_until_terminated())
            else:
                obj = self.launch(cls, inputs=None, pid=child_pid)
        else:
            raise ValueError(spec)
        fut = obj.future() if isinstance(obj, Process) else obj
        rec = {'key': key, 'spec': spec, 'how': how, 'obj': obj, 'fut': fut, 'order': None}
        lst = w.extra.setdefault('awaited', {}).setdefault(self.pid, [])
        lst.append(rec)

        def done(_fut, rec=rec, w=w):
            seq = w.extra.setdefault('_done_seq', [0])
            seq[0] += 1
            rec['order'] = seq[0]

        fut.add_done_callback(done)
        return obj

    def init(self):
        # helper state built from what the class persists (see ProgBase.init): needs the restored context
        super().init()
        self._pv_ctx_keys_at_init = sorted(vars(self.ctx))

    def to_context(self, **kwargs):
        # the public registration method is an extension point (an application wraps / converts what it is given):
        # a returned ToContext has to come through here as well
        world.cur().extra.setdefault('to_context_keys', {}).setdefault(self.pid, []).extend(kwargs)
        return super().to_context(**kwargs)

    def _run_step(self, name):
        _hook_point(self, 'step:' + name, 'entry')  # before any effect of the step (mid-step checkpoints are taken here)
        k = self._count(name)
        w = world.cur()
        pid = self.pid
        ctx_view = {key: val for key, val in vars(self.ctx).items() if not key.startswith('n_')}
        w.tr(
            pid,
            {
                'k': 'enter',
                'step': name,
                'args': [],
                'kwargs': {},
                'call': k,
                'paused': self.paused,
                'cur': Process.current() is self,
                'state': self.state.value,
                'status': self.status,
                'ctx': _summ_ctx(ctx_view),
                'pending': [r['key'] for r in w.extra.get('awaited', {}).get(pid, []) if not r['fut'].done()],
            },
        )
        outcome = 'raised'
        try:
            _hook_point(self, 'step:' + name, 'pre')
            regs = self.BEHAVIOUR.get('tocontext', {}).get(name, [])
            if k < len(regs):
                self.to_context(**{key: self._awaitable(key, spec, 'toctx') for key, spec in regs[k].items()})
            for item in self.BEHAVIOUR.get('bodies', {}).get(name, []):
                if item[0] == 'out':
                    self.out(item[1], item[2])
                elif item[0] == 'ctx':
                    self.ctx[item[1]] = item[2]
                elif item[0] == 'status':
                    self.set_status(item[1])
            rets = self.BEHAVIOUR.get('rets', {}).get(name, [])
            value = rets[k] if k < len(rets) else None
            if isinstance(value, dict) and '__tc__' in value:
                value = {key: self._awaitable(key, spec, 'ret') for key, spec in value['__tc__'].items()}
            elif isinstance(value, dict) and '__mapping__' in value:
                import types

                value = types.MappingProxyType(dict(value['__mapping__']))  # a result that is a mapping, but not a dict
            elif isinstance(value, dict) and '__wait__' in value:
                # the step asks for an external reply with a plain Wait command (nothing to await: resume(value) wakes the
                # chain up); the continuation is a method of the chain
                import plumpy

                value = plumpy.Wait(self.pv_receive, 'waiting for a reply')
            elif isinstance(value, dict) and '__raise__' in value:
                from .programs import ProgError

                exc = ProgError(value['__raise__'])
                w.extra.setdefault('raised', []).append(exc)
                raise exc
            _hook_point(self, 'step:' + name, 'post')
            outcome = 'returned'
            return value
        finally:
            w.tr(pid, {'k': 'exit', 'step': name, 'outcome': outcome})

    def pv_receive(self, *args):
        self.ctx['reply'] = list(args)
        self.out('reply', list(args))
        self._run_step('receive')
        return 'received'

    def _run_pred(self, name):
        k = self._count(name)
        vals = self.BEHAVIOUR.get('preds', {}).get(name, [])
        value = bool(vals[k]) if k < len(vals) else False
        world.cur().tr(self.pid, {'k': 'pred', 'name': name, 'value': value, 'call': k})
        # predicates in the wild return work lists, names, counts: their truth value is what counts
        shape = self.BEHAVIOUR.get('pred_as', {}).get(name)
        if shape == 'list':
            return ['todo'] if value else []
        if shape == 'str':
            return 'yes' if value else ''
        if shape == 'tuple':
            return (0,) if value else ()
        if shape == 'int':
            return 2 if value else 0
        if shape == 'none':
            return object() if value else None
        return value


def _summ_ctx(ctx):
    out = {}
    for key, val in ctx.items():
        try:
            import json

            json.dumps(val)
            out[key] = val
        except (TypeError, ValueError):
            out[key] = repr(val)[:60]
    return out


def _compile(cls, ins):
    kind = ins[0]
    if kind == 'step':
        if cls.BEHAVIOUR.get('module_steps'):
            # outline elements that are plain functions and not what their name resolves to on the class (factory-made
            # steps sharing one __name__, helpers defined at module level)
            name = ins[1]

            def step(self):
                return self._run_step(name)

            return step
        return getattr(cls, 'st_' + ins[1])
    if kind == 'return':
        return return_ if len(ins) == 1 else return_(ins[1])
    if kind == 'while':
        return while_(getattr(cls, 'pr_' + ins[1]))(*[_compile(cls, sub) for sub in ins[2]])
    if kind == 'if':
        branches = ins[1]
        node = if_(getattr(cls, 'pr_' + branches[0][0]))(*[_compile(cls, sub) for sub in branches[0][1]])
        for pred, body in branches[1:]:
            node = node.elif_(getattr(cls, 'pr_' + pred))(*[_compile(cls, sub) for sub in body])
        if ins[2] is not None:
            node = node.else_(*[_compile(cls, sub) for sub in ins[2]])
        return node
    raise ValueError(ins)


def names(outline):
    steps, preds = [], []

    def walk(body):
        for ins in body:
            if ins[0] == 'step':
                if ins[1] not in steps:
                    steps.append(ins[1])
            elif ins[0] == 'while':
                if ins[1] not in preds:
                    preds.append(ins[1])
                walk(ins[2])
            elif ins[0] == 'if':
                for pred, body2 in ins[1]:
                    if pred not in preds:
                        preds.append(pred)
                    walk(body2)
                if ins[2] is not None:
                    walk(ins[2])

    walk(outline)
    return steps, preds


def _make_step(name):
    def st(self):
        return self._run_step(name)

    st.__name__ = 'st_' + name
    st.__qualname__ = 'st_' + name
    return st


def _make_pred(name):
    def pr(self):
        return self._run_pred(name)

    pr.__name__ = 'pr_' + name
    pr.__qualname__ = 'pr_' + name
    return pr


_BRACKET_SPEC = []


def _bracket_spec_class():
    """A WorkChainSpec whose get_outline() (the documented way to get at the outline) wraps what was declared with a
    prologue and an epilogue step - an application that adds bookkeeping steps to every chain of its family."""
    if not _BRACKET_SPEC:
        from plumpy import workchains

        class BracketSpec(workchains.WorkChainSpec):
            def get_outline(self):
                if getattr(self, '_pv_bracketed', None) is None:
                    self._pv_bracketed = workchains._Block([_PRO, super().get_outline(), _EPI])
                return self._pv_bracketed

        _BRACKET_SPEC.append(BracketSpec)
    return _BRACKET_SPEC[0]


def _pro(self):
    return self._run_step('pro')


def _epi(self):
    return self._run_step('epi')


_pro.__name__ = _pro.__qualname__ = 'st_pro'
_epi.__name__ = _epi.__qualname__ = 'st_epi'
_PRO, _EPI = _pro, _epi


def make_workchain(outline, behaviour):
    name = 'W_' + jkey([outline, behaviour])[:16]
    cls = getattr(gen_classes, name, None)
    if cls is not None:
        return cls
    steps, preds = names(outline)
    namespace = {'OUTLINE': outline, 'BEHAVIOUR': behaviour, '__module__': gen_classes.__name__}
    for step in steps:
        namespace['st_' + step] = _make_step(step)
    for pred in preds:
        namespace['pr_' + pred] = _make_pred(pred)
    if behaviour.get('bracket'):
        namespace['_spec_class'] = _bracket_spec_class()
        namespace['st_pro'] = _PRO
        namespace['st_epi'] = _EPI
    if behaviour.get('stepper_key'):
        # a chain class that files the position in its outline under a key of its own (the class attribute is the hook)
        namespace['_STEPPER_STATE'] = behaviour['stepper_key']
    cls = type(name, (WcBase,), namespace)
    setattr(gen_classes, name, cls)
    return cls
