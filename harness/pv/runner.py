"""E4 -- drivers (corpus replay, small-scope enumeration, Hypothesis), findings handling, shrinking, evidence.

A *check module* (pv.checks.cNN) provides::

    ID, LEVEL, RULE, ASSUMPTIONS
    execute(case) -> {'violations': [{'clause', 'detail'}], 'nontrivial': bool, 'classes': [...], 'history': ...}
    enumerate_cases(tier) -> iterator of cases           (optional; finite scope, reported as exhaustive)
    strategy(tier) -> hypothesis strategy of cases       (optional)
    BUDGET = {'quick': {'hyp': N, 'shards': S}, 'thorough': {...}}
    SIGNATURES = {name: predicate(case, verdict) -> bool}    (known-finding signatures, referenced by name)
    shrink_candidates(case) -> iterator of smaller cases (optional)
"""

import collections
import copy
import hashlib
import importlib
import json
import multiprocessing
import os
import sys
import time
import traceback

ROOT = os.path.dirname(os.path.dirname(os.path.dirname(os.path.abspath(__file__))))  # /verif
FINDINGS_FILE = os.path.join(ROOT, 'known_findings.json')
MAX_FAIL_KEEP = 40


def case_hash(case):
    return hashlib.sha1(json.dumps(case, sort_keys=True, default=str).encode()).hexdigest()


def load_check(prop_id):
    return importlib.import_module(f'pv.checks.{prop_id.lower()}')


def jsonable(value):
    return json.loads(json.dumps(value, default=lambda o: repr(o)[:200]))


# --------------------------------------------------------------------------------------------
# known findings
# --------------------------------------------------------------------------------------------
def load_findings(prop_id):
    if not os.path.exists(FINDINGS_FILE):
        return []
    with open(FINDINGS_FILE) as handle:
        data = json.load(handle)
    return [f for f in data.get('findings', []) if f['property'] == prop_id and f.get('status') == 'open']


def match_finding(check, findings, case, verdict):
    """Return the id of the open finding whose signature matches this failing case, else None."""
    sigs = getattr(check, 'SIGNATURES', {})
    for finding in findings:
        pred = sigs.get(finding['signature'])
        if pred is None:
            continue
        try:
            if pred(case, verdict):
                return finding['id']
        except Exception:  # noqa: BLE001 - a broken signature matches nothing
            continue
    return None


# --------------------------------------------------------------------------------------------
# statistics
# --------------------------------------------------------------------------------------------
class Stats:
    def __init__(self):
        self.evaluations = 0
        self.nontrivial = set()
        self.classes = collections.Counter()
        self.failures = []  # (case, verdict)
        self.fail_count = 0
        self.excluded = collections.Counter()
        self.samples = []
        self.errors = []

    def add(self, check, findings, case, verdict):
        self.evaluations += 1
        for cls in verdict.get('classes', ()):
            self.classes[cls] += 1
        if verdict.get('nontrivial'):
            self.nontrivial.add(case_hash(case)[:16])
            if len(self.samples) < 3:
                self.samples.append({'case': case, 'history': verdict.get('history'), 'violations': verdict['violations']})
        if verdict['violations']:
            known = match_finding(check, findings, case, verdict)
            if known is not None:
                self.excluded[known] += 1
            else:
                self.fail_count += 1
                if len(self.failures) < MAX_FAIL_KEEP:
                    self.failures.append((case, verdict))

    def merge(self, other):
        self.evaluations += other.evaluations
        self.nontrivial |= other.nontrivial
        self.classes.update(other.classes)
        self.fail_count += other.fail_count
        self.failures.extend(other.failures)
        self.failures = self.failures[: MAX_FAIL_KEEP * 4]
        self.excluded.update(other.excluded)
        for sample in other.samples:
            if len(self.samples) < 5:
                self.samples.append(sample)
        self.errors.extend(other.errors)


def _abandon_loops():
    """After a livelock the case's event loop still holds its runaway tasks: drop them so that nothing leaks into the next case."""
    import asyncio

    from . import world

    try:
        loop = asyncio.get_event_loop_policy().get_event_loop()
    except Exception:  # noqa: BLE001
        loop = None
    if loop is not None and hasattr(loop, 'all_tasks'):
        for task in list(loop.all_tasks):
            task._log_destroy_pending = False
        try:
            loop.shutdown()
        except Exception:  # noqa: BLE001
            pass
    asyncio.set_event_loop(None)
    world.reset(None)


def safe_execute(check, case):
    from . import steploop

    steploop.start_case()
    try:
        verdict = check.execute(case)
    except steploop.Livelock as exc:
        # quiescence is what every oracle waits for: a case that never gets there is a violation of every property
        # whose check drives a process ("never leaves the process stuck", "step_until_terminated() returns", ...)
        _abandon_loops()
        verdict = {'violations': [{'clause': 'livelock', 'detail': str(exc)}], 'nontrivial': True, 'classes': ['livelock'], 'history': {'case': case}}
    else:
        if steploop.BUDGET.get('tripped'):
            # the guard fired inside user code and plumpy swallowed it as a failing step: the verdict of such a run is void
            verdict = {'violations': [{'clause': 'livelock', 'detail': steploop.BUDGET['tripped']}], 'nontrivial': True, 'classes': ['livelock'], 'history': {'case': case}}
    finally:
        steploop.BUDGET['limit'] = None
        steploop.BUDGET['armed'] = False
    verdict.setdefault('violations', [])
    verdict.setdefault('nontrivial', False)
    verdict.setdefault('classes', [])
    return verdict


# --------------------------------------------------------------------------------------------
# workers
# --------------------------------------------------------------------------------------------
def _worker(args):
    prop_id, mode, tier, seed, shard, nshards, extra = args
    stats = Stats()
    try:
        check = load_check(prop_id)
        findings = load_findings(prop_id)
        if hasattr(check, 'setup_worker'):
            check.setup_worker(mode, shard, extra)
        if mode == 'enum':
            scope = extra
            for index, case in enumerate(check.enumerate_cases(tier, scope)):
                if index % nshards != shard:
                    continue
                stats.add(check, findings, case, safe_execute(check, case))
                _housekeeping(stats.evaluations)
        elif mode == 'hyp':
            _run_hypothesis(check, findings, stats, tier, seed * 1000 + shard, extra)
    except (KeyboardInterrupt, SystemExit):
        raise
    except BaseException:  # noqa: BLE001 - harness error, reported with exit code 2 (a BaseException such as CancelledError
        # escaping here would kill the pool worker silently and leave the parent waiting for its result for ever)
        stats.errors.append(traceback.format_exc())
    # verdict histories may hold non-JSON objects: make everything picklable/JSON-able
    stats.failures = [(c, _clean_verdict(v)) for c, v in stats.failures]
    stats.samples = [jsonable(s) for s in stats.samples]
    return stats


def _clean_verdict(verdict):
    return jsonable({k: v for k, v in verdict.items() if not k.startswith('_')})


def _housekeeping(count):
    if count % 400 == 0:
        from . import programs

        programs.forget_classes()


def _run_hypothesis(check, findings, stats, tier, seed, n_examples):
    import hypothesis
    from hypothesis import HealthCheck, Phase, given, settings

    strategy = check.strategy(tier)

    @hypothesis.seed(seed)
    @settings(
        max_examples=n_examples,
        database=None,
        deadline=None,
        report_multiple_bugs=False,
        phases=(Phase.generate,),
        suppress_health_check=[HealthCheck.too_slow, HealthCheck.data_too_large, HealthCheck.large_base_example],
        derandomize=False,
    )
    @given(strategy)
    def test(case):
        case = jsonable(case)
        stats.add(check, findings, case, safe_execute(check, case))
        _housekeeping(stats.evaluations)

    test()


# --------------------------------------------------------------------------------------------
# shrinking (bounded delta debugging over the JSON case)
# --------------------------------------------------------------------------------------------
def _generic_candidates(case):
    """Yield structurally smaller cases: drop one element of any list found under the shrinkable keys."""

    def walk(node, path):
        if isinstance(node, dict):
            for key, val in node.items():
                yield from walk(val, path + [key])
        elif isinstance(node, list):
            yield path, node
            for i, val in enumerate(node):
                yield from walk(val, path + [i])

    keys = ('schedule', 'listener', 'ops', 'events', 'emissions', 'requests', 'crash', 'rules')
    for path, lst in list(walk(case, [])):
        if not path or not any(isinstance(p, str) and p in keys for p in path[-1:]):
            continue
        for i in range(len(lst)):
            cand = copy.deepcopy(case)
            node = cand
            for p in path:
                node = node[p]
            del node[i]
            yield cand


def shrink(check, case, clause, budget=300):
    used = 0
    improved = True
    current = case
    while improved and used < budget:
        improved = False
        cands = []
        if hasattr(check, 'shrink_candidates'):
            cands.append(check.shrink_candidates(current))
        cands.append(_generic_candidates(current))
        for gen in cands:
            try:
                for cand in gen:
                    if used >= budget:
                        break
                    used += 1
                    try:
                        verdict = safe_execute(check, cand)
                    except Exception:  # noqa: BLE001 - malformed candidate
                        continue
                    if any(v['clause'] == clause for v in verdict['violations']):
                        current = cand
                        improved = True
                        break
            except Exception:  # noqa: BLE001 - a shrinker that cannot handle this case shape just stops shrinking
                pass
            if improved:
                break
    return current, used


# --------------------------------------------------------------------------------------------
# main entry
# --------------------------------------------------------------------------------------------
def corpus_cases(prop_id):
    cdir = os.path.join(ROOT, 'corpus', prop_id)
    if not os.path.isdir(cdir):
        return
    for name in sorted(os.listdir(cdir)):
        if name.endswith('.json'):
            with open(os.path.join(cdir, name)) as handle:
                data = json.load(handle)
            yield name, data.get('case', data)


def write_replay(prop_id, case, verdict):
    rdir = os.path.join(ROOT, 'replays')
    os.makedirs(rdir, exist_ok=True)
    path = os.path.join(rdir, f'{prop_id}-{case_hash(case)[:12]}.json')
    with open(path, 'w') as handle:
        json.dump({'property': prop_id, 'case': case, 'verdict': _clean_verdict(verdict)}, handle, indent=1, default=repr)
    return path


def run_check(prop_id, tier, seed):
    t0 = time.time()
    check = load_check(prop_id)
    findings = load_findings(prop_id)
    rdir = os.path.join(ROOT, 'replays')
    if os.path.isdir(rdir):
        for name in os.listdir(rdir):
            if name.startswith(prop_id + '-'):
                os.remove(os.path.join(rdir, name))
    total = Stats()
    parts = {}
    violations = []  # (case, verdict)
    known_lines = []

    # 1. known findings: replay their stored repro
    for finding in findings:
        verdict = safe_execute(check, finding['repro'])
        if verdict['violations'] and match_finding(check, [finding], finding['repro'], verdict) == finding['id']:
            known_lines.append(f"KNOWN-FINDING: property={prop_id} {finding['id']} {finding['what']}")
        total.evaluations += 1

    # 2. corpus
    n_corpus = 0
    for _name, case in corpus_cases(prop_id):
        verdict = safe_execute(check, case)
        total.add(check, findings, case, verdict)
        n_corpus += 1
    parts['corpus'] = n_corpus

    budget = check.BUDGET[tier]
    ncpu = min(16, os.cpu_count() or 1)
    jobs = []
    exhaustive_scopes = []
    if hasattr(check, 'enumerate_cases'):
        for scope in budget.get('enum', []):
            nsh = budget.get('enum_shards', ncpu)
            for shard in range(nsh):
                jobs.append((prop_id, 'enum', tier, seed, shard, nsh, scope))
            exhaustive_scopes.append(scope)
    if hasattr(check, 'strategy') and budget.get('hyp'):
        nsh = budget.get('shards', 4)
        per = max(1, budget['hyp'] // nsh)
        for shard in range(nsh):
            jobs.append((prop_id, 'hyp', tier, seed, shard, nsh, per))

    if jobs:
        ctx = multiprocessing.get_context('fork')
        with ctx.Pool(min(ncpu, len(jobs))) as pool:
            for args, stats in zip(jobs, pool.imap(_worker, jobs, chunksize=1)):
                key = args[1] if args[1] == 'hyp' else f'enum:{args[6]}'
                parts[key] = parts.get(key, 0) + stats.evaluations
                total.merge(stats)

    if total.errors:
        sys.stdout.write('HARNESS-ERROR\n' + total.errors[0] + '\n')
        return 2

    # 3. failures -> buckets -> shrink -> replay files
    buckets = {}
    for case, verdict in total.failures:
        clause = verdict['violations'][0]['clause']
        best = buckets.get(clause)
        size = len(json.dumps(case, default=str))
        if best is None or size < best[0]:
            buckets[clause] = (size, case, verdict)
    replay_paths = []
    for clause, (_size, case, verdict) in sorted(buckets.items()):
        small, _used = shrink(check, case, clause, budget=200 if tier == 'quick' else 600)
        verdict2 = safe_execute(check, small)
        if not any(v['clause'] == clause for v in verdict2['violations']):
            small, verdict2 = case, verdict
        if match_finding(check, findings, small, verdict2) is not None:
            # shrinking walked into a known finding: keep the unshrunk case instead
            small, verdict2 = case, verdict
        path = write_replay(prop_id, small, verdict2)
        replay_paths.append((clause, path, next((x.get('detail') for x in verdict2['violations'] if x['clause'] == clause), verdict2['violations'][0].get('detail'))))

    wall = time.time() - t0
    write_evidence(check, tier, seed, total, parts, exhaustive_scopes, wall, len(replay_paths), known_lines)

    for line in known_lines:
        print(line)
    cls = ', '.join(f'{k}={v}' for k, v in sorted(total.classes.items())[:30])
    print(
        f'{prop_id} tier={tier} seed={seed} evaluations={total.evaluations} distinct_nontrivial={len(total.nontrivial)} '
        f'excluded_known={dict(total.excluded)} wall={wall:.1f}s'
    )
    if cls:
        print(f'  classes: {cls}')
    if replay_paths:
        for clause, path, detail in replay_paths:
            print(f'  clause={clause} detail={str(detail)[:300]}')
            print(f'VIOLATION property={prop_id} replay={path}')
        return 1
    return 0


def write_evidence(check, tier, seed, total, parts, exhaustive_scopes, wall, nviol, known_lines):
    coverage = {
        'evaluations': total.evaluations,
        'distinct_nontrivial': len(total.nontrivial),
        'rule': check.RULE,
        'samples': total.samples[:5] or [{'note': 'no non-trivial case sampled'}],
        'parts': parts,
        'class_histogram': dict(sorted(total.classes.items())),
        'excluded_known': dict(total.excluded),
        'known_findings_reported': known_lines,
    }
    if exhaustive_scopes:
        coverage['exhaustive'] = bool(getattr(check, 'EXHAUSTIVE_ONLY', False))
        coverage['exhaustive_scopes'] = [str(s) for s in exhaustive_scopes]
        coverage['exhaustive_note'] = (
            'the listed finite scopes were enumerated completely; Hypothesis-generated cases beyond them are a sample'
        )
    if hasattr(check, 'extra_coverage'):
        coverage.update(check.extra_coverage(total))
    evidence = {
        'property_id': check.ID,
        'tier': tier,
        'seed': seed,
        'level': check.LEVEL,
        'coverage': jsonable(coverage),
        'assumptions': list(getattr(check, 'ASSUMPTIONS', [])),
        'wall_s': round(wall, 2),
        'violations': nviol,
    }
    edir = os.path.join(ROOT, 'evidence')
    os.makedirs(edir, exist_ok=True)
    with open(os.path.join(edir, f'{check.ID}.json'), 'w') as handle:
        json.dump(evidence, handle, indent=1)


def replay(prop_id, path):
    check = load_check(prop_id)
    with open(path) as handle:
        data = json.load(handle)
    case = data.get('case', data)
    verdict = safe_execute(check, case)
    print(json.dumps(_clean_verdict(verdict), indent=1)[:6000])
    if verdict['violations']:
        findings = load_findings(prop_id)
        known = match_finding(check, findings, case, verdict)
        if known is not None:
            print(f'KNOWN-FINDING: property={prop_id} {known}')
            return 0
        print(f'VIOLATION property={prop_id} replay={path}')
        return 1
    return 0
