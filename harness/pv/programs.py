"""E2 -- process programs as data.

A *program* is a JSON value::

    {"steps": [step, ...], "inputs": {...}|null, "spec": {...}|absent}

    step = {"async": bool, "body": [item, ...], "ret": ret}
    item = ["yield"] | ["gate", g]                      (async steps only)
         | ["out", port_path, value] | ["ctx", key, value] | ["status", text]
         | ["call", what, arg]                          (self-directed control call; what in CONTROL)
         | ["soon", "ok"|"raise", tag]                  (call_soon callback)
         | ["raise", tag]
    ret  = ["continue", j, args, kwargs] | ["wait", j, msg, data] | ["value", v] | ["stop", v, ok]
         | ["unsuccessful", code] | ["kill", text] | ["raise", tag]
         | ["branch", ctx_key, {value: ret}, default_ret]     (decision from persisted ctx only)

Step 0 is ``run``; step j>0 is method ``s<j>``.  Every step entry, resumption after an await and exit is
appended to the external trace in :mod:`pv.world` (keyed by pid), never to process state.
"""

import asyncio
import copy
import hashlib
import json

import plumpy
from plumpy import process_states
from plumpy.mixins import ContextMixin
from plumpy.process_comms import MessageBuilder
from plumpy.process_listener import ProcessListener
from plumpy.processes import Process

from . import gen_classes, world

NOVALUE = '<<novalue>>'
MAX_STEPS = 16
CONTROL = ('pause', 'play', 'kill', 'resume', 'fail', 'cancel', 'status', 'close')
NOMSG = '__nomsg__'  # Kill() without a message


class ProgError(Exception):
    """Tagged exception raised by generated user code."""

    def __len__(self):
        # an exception type of an application that carries a (here: empty) collection: the instance is falsy
        return 0 if self.args and self.args[0] == 'falsy' else 1

    def __eq__(self, other):
        return type(other) is type(self) and other.args == self.args

    def __hash__(self):
        return hash((type(self).__name__, self.args))


class InjectedFault(Exception):
    """Tagged exception raised by the fault injector (C03)."""


class UnprintableFault(InjectedFault):
    """An exception whose text cannot be produced (its __str__ fails, e.g. by concatenating a number): whoever shields
    the process from a listener must not depend on rendering it."""

    def __str__(self):
        return 'code ' + 404  # TypeError

    def __repr__(self):
        return 'UnprintableFault(...)'


TOKEN = object()


def dec(value):
    """Decode tagged JSON into the value domain: {"__tuple__": [...]} -> tuple, {"__uuid__": s} -> UUID."""
    if isinstance(value, dict):
        if len(value) == 1:
            if '__tuple__' in value:
                return tuple(dec(v) for v in value['__tuple__'])
            if '__uuid__' in value:
                import uuid

                return uuid.UUID(value['__uuid__'])
            if '__exc__' in value:
                return ValueError(value['__exc__'])
            if '__token__' in value:
                return TOKEN  # a bare sentinel object (the same one every time): a value like any other
            if '__lock__' in value:
                import threading

                return threading.Lock()  # something that cannot be copied, pickled or dumped
            if '__done_future__' in value:
                # a handle to something that has already happened (e.g. child.future()): a value like any other
                fut = asyncio.get_event_loop().create_future()
                fut.set_result(dec(value['__done_future__']))
                return fut
        return {k: dec(v) for k, v in value.items()}
    if isinstance(value, list):
        return [dec(v) for v in value]
    return value


def step_name(idx):
    return 'run' if idx == 0 else f's{idx}'


def step_index(name):
    return 0 if name == 'run' else int(name[1:])


def jkey(value):
    return hashlib.sha1(json.dumps(value, sort_keys=True, default=str).encode()).hexdigest()


# --------------------------------------------------------------------------------------------
# control calls (shared by external events, self calls and listener calls)
# --------------------------------------------------------------------------------------------
def describe_ret(ret):
    if ret is True:
        return 'True'
    if ret is False:
        return 'False'
    if ret is None:
        return 'None'
    if asyncio.isfuture(ret):
        return 'future'
    return f'other:{type(ret).__name__}'


def control(proc, what, arg=None, who='ext'):
    """Issue a control call on ``proc``; never raises.  Returns the record appended to ``world.futs``."""
    w = world.cur()
    rec = {
        'who': who,
        'what': what,
        'arg': arg,
        'pid': proc.pid,
        'live_before': not proc.has_terminated(),
        'state_before': proc.state.value,
        'paused_before': proc.paused,
        'n_trace': len(w.trace.get(proc.pid, [])),
        'seq_start': len(w.futs),
        'sample': w.extra.get('n_samples'),  # index of the next observation sample (calls from steps, hooks, listeners too)
        'begin': w.extra.setdefault('_begin', [0]).__setitem__(0, w.extra['_begin'][0] + 1) or w.extra['_begin'][0],
        'ret': None,
        'raised': None,
        '_fut': None,
        '_exc': None,
    }
    try:
        if what == 'pause':
            ret = proc.pause(arg)
        elif what == 'play':
            ret = proc.play()
        elif what == 'kill':
            ret = proc.kill(arg)
        elif what in ('killw', 'pausew'):
            # the caller drops its request at once: it cancels the future that was handed out for it (an
            # asyncio.wait_for(..., 0) does just that); recorded as the request it is, marked withdrawn
            ret = proc.kill(arg) if what == 'killw' else proc.pause(arg)
            rec['what'] = what[:-1]
            if asyncio.isfuture(ret) and not ret.done():
                ret.cancel()
                rec['withdrawn'] = True
        elif what == 'resume':
            ret = proc.resume() if arg == NOVALUE else proc.resume(arg)
        elif what == 'fail':
            exc = ProgError(arg)
            rec['_exc'] = exc
            ret = proc.fail(exc, None)
        elif what == 'cancel':
            ret = proc.future().cancel()
        elif what == 'status':
            ret = proc.set_status(arg)
        elif what == 'unlisten':
            # the process takes the listener off itself (again): removing a listener that is not (any more) there is fine
            ret = proc.remove_process_listener(w.extra.get('main_listener'))
        elif what == 'remove_observer':
            # the process detaches an observer of its state changes (registered by whoever holds it) once it is over:
            # after close() there is nothing left to detach, which is fine
            from plumpy.base.state_machine import StateEventHook

            ret = proc.remove_state_event_callback(StateEventHook.ENTERED_STATE, w.extra.get('extra_observer'))
        elif what == 'add_cleanup':
            ret = proc.add_cleanup(lambda: None)
        elif what == 'out':
            ret = proc.out(arg[0], dec(arg[1]))  # an output emitted from a hook (a summary written at the very end)
        elif what == 'close':
            ret = proc.close()
        else:
            raise ValueError(f'unknown control call {what}')
        rec['ret'] = describe_ret(ret)
        if asyncio.isfuture(ret):
            rec['_fut'] = ret
    except (Exception, asyncio.CancelledError) as exc:  # noqa: BLE001 - the oracle decides what a raise means
        rec['raised'] = f'{type(exc).__name__}: {str(exc)[:120]}'
        rec['_raised_exc'] = exc
    rec['state_after'] = proc.state.value
    rec['paused_after'] = proc.paused
    rec['status_after'] = proc.status
    rec['seq'] = len(w.futs)
    w.futs.append(rec)
    return rec


# --------------------------------------------------------------------------------------------
# listener
# --------------------------------------------------------------------------------------------
NOTIFICATIONS = (
    'on_process_created',
    'on_process_running',
    'on_process_waiting',
    'on_process_paused',
    'on_process_played',
    'on_output_emitted',
    'on_process_finished',
    'on_process_excepted',
    'on_process_killed',
)


class ProgListener(ProcessListener):
    """Records every notification in the world; can issue a control call or raise at (notification, occurrence)."""

    def _note(self, name, process, *args):
        w = world.cur()
        pid = process.pid
        w.notifications.setdefault(pid, []).append([name, [_summ(a) for a in args]])
        w.extra.setdefault('noted_states', []).append((pid, name, process.state.value))
        if name == 'on_output_emitted' and len(args) >= 2:
            # whoever is told about an output finds it among the outputs of the process (a listener that checkpoints or
            # forwards on every emission reads them at this very moment)
            cur = process.outputs
            try:
                for part in str(args[0]).split(process.spec().namespace_separator):
                    cur = cur[part]
                visible = cur is args[1] or cur == args[1]
            except (KeyError, TypeError):
                visible = False
            w.extra.setdefault('emitted_visible', []).append((pid, args[0], visible))
        cnt = w.listener_counts.get((pid, name), 0) + 1
        w.listener_counts[(pid, name)] = cnt
        for plan in w.listener_plan.get(pid, []):
            if plan['on'] == name and plan['occ'] == cnt:
                do = plan['do']
                if do[0] == 'unsubscribe':
                    # a one-shot listener: it has heard what it waited for and takes itself off the process
                    process.remove_process_listener(self)
                    w.extra.setdefault('unsubscribed', []).append((name, cnt))
                elif do[0] == 'checkpoint':
                    # a listener that checkpoints the process whenever it is told about a change (what a persister hooked
                    # up to the notifications does); a failing save is the listener's failure
                    from plumpy import persistence

                    w.extra.setdefault('listener_checkpoints', []).append(persistence.Bundle(process))
                elif do[0] == 'raise_cancelled':
                    # the listener awaited/read something that was cancelled: not an error of the process, and not an
                    # Exception either
                    raise asyncio.CancelledError()
                elif do[0] == 'subscribe':
                    # ... or it puts another listener on the process
                    other = ProcessListener()
                    w.extra.setdefault('extra_listeners', []).append(other)
                    process.add_process_listener(other)
                else:
                    control(process, do[0], do[1] if len(do) > 1 else None, who=f'listener:{name}')
        lf = w.listener_fault
        if lf is not None and lf['on'] == name and lf['occ'] == cnt:
            w.fault_fired = ('listener', name, cnt)
            if lf.get('unsubscribe'):
                process.remove_process_listener(self)  # (a listener that gives up: it takes itself off, then fails)
            if lf.get('unprintable'):
                raise UnprintableFault(f'listener:{name}:{cnt}')
            raise InjectedFault(f'listener:{name}:{cnt}')


def _summ(value):
    try:
        json.dumps(value)
        return value
    except (TypeError, ValueError):
        return repr(value)[:80]


def _make_note(name):
    def method(self, process, *args):
        self._note(name, process, *args)

    method.__name__ = name
    return method


for _n in NOTIFICATIONS:
    setattr(ProgListener, _n, _make_note(_n))


# --------------------------------------------------------------------------------------------
# hooks (recorded always, raise only when a fault is armed)
# --------------------------------------------------------------------------------------------
HOOKS = (
    'on_create',
    'on_exit_running',
    'on_exit_waiting',
    'on_run',
    'on_running',
    'on_output_emitting',
    'on_output_emitted',
    'on_wait',
    'on_waiting',
    'on_pausing',
    'on_paused',
    'on_playing',
    'on_finish',
    'on_finished',
    'on_except',
    'on_excepted',
    'on_kill',
    'on_killed',
    'on_terminated',
    'on_close',
    'on_entering',
    'on_entered',
    'on_exiting',
)


def _hook_point(proc, hook, pos):
    w = world.cur()
    pid = proc._pid  # pid may not be set yet in on_create(pre): read the attribute plumpy itself uses
    if hook == 'on_create' and pos == 'pre':
        w.extra.setdefault('instances', []).append(proc)
    if pos == 'pre':
        cnt = w.hook_counts.get((pid, hook), 0) + 1
        w.hook_counts[(pid, hook)] = cnt
    else:
        cnt = w.hook_counts.get((pid, hook), 0)
    if w.sample_current:
        w.hooks.setdefault(pid, []).append((hook, pos, Process.current() is proc))
    else:
        w.hooks.setdefault(pid, []).append((hook, pos, None))
    for plan in w.hook_plan.get(pid, ()) if pid in w.extra.get('constructed', ()) else ():
        # (hooks fired inside the constructor run before the harness holds the process: no requests from there)
        if plan['hook'] == hook and plan['occ'] == cnt and plan['pos'] == pos:
            do = plan['do']
            rec = control(proc, do[0], do[1] if len(do) > 1 else None, who=f'hook:{hook}:{pos}')
            if rec.get('_raised_exc') is not None:
                raise rec['_raised_exc']  # a hook override would not catch what the control call raises
    listener = w.extra.get('hook_listener')
    if listener is not None and pid in w.extra.get('constructed', ()):
        listener(proc, hook, pos)
    always = getattr(proc, 'PROGRAM', {}).get('raise_in_hook')
    if always is not None and always[0] == hook and always[1] == pos:
        # a class whose hook override always fails (C17): part of the program, not an injected fault
        raise InjectedFault(f'{hook}:{pos}:always')
    f = w.fault
    if f is not None and f['hook'] == hook and f['occ'] == cnt and f['pos'] == pos and f.get('pid', pid) == pid:
        if w.fault_fired is None:
            exc = InjectedFault(f'{hook}:{cnt}:{pos}')
            w.fault_fired = ('hook', hook, cnt, pos, exc, proc.has_terminated() if proc._state is not None else False)
            raise exc


class HookMixin:
    """Overrides every lifecycle hook: records the call and raises only when a fault is armed for that point."""


def _make_hook(name):
    def hook(self, *args, **kwargs):
        _hook_point(self, name, 'pre')
        getattr(super(HookMixin, self), name)(*args, **kwargs)
        _hook_point(self, name, 'post')

    hook.__name__ = name
    return hook


for _h in HOOKS:
    setattr(HookMixin, _h, _make_hook(_h))


# The state map of the library's base class is looked at before any subclass is used (both orders are legitimate; this is
# the one in which something a subclass wrongly inherits from an already built base class can show)
Process.get_states_map()


# --------------------------------------------------------------------------------------------
# the interpreter
# --------------------------------------------------------------------------------------------
class ProgBase(HookMixin, ContextMixin, Process):
    PROGRAM = {'steps': [{'async': False, 'body': [], 'ret': ['value', None]}]}

    @classmethod
    def define(cls, spec):
        super().define(spec)
        sp = cls.PROGRAM.get('spec')
        if sp is None:
            spec.inputs.dynamic = True
            spec.outputs.dynamic = True
        else:
            from .models import ports as port_model

            port_model.build_spec(spec, sp)

    def load_instance_state(self, saved_state, load_context):
        super().load_instance_state(saved_state, load_context)
        world.cur().extra.setdefault('instances', []).append(self)

    def kill(self, msg_text=None):
        if self.PROGRAM.get('wrapped_kill'):
            # an application that does something asynchronous before it kills (here: nothing) hands back a future that
            # resolves to whatever the library's kill() gave - possibly a pending action, i.e. a future again
            fut = plumpy.futures.Future()
            fut.set_result(super().kill(msg_text))
            return fut
        return super().kill(msg_text)

    def init(self):
        # the documented hook for what is common to created and recreated processes: here a helper that is built from
        # state the subclass persists (the context), so it has to run when all of that has been restored
        super().init()
        self._pv_ctx_keys_at_init = sorted(vars(self.ctx))

    def save_instance_state(self, out_state, save_context):
        # an application that keeps only its newest checkpoint: while it is being saved it purges what the store holds of it
        store = world.cur().extra.get('purge_on_save')
        if store is not None:
            store.delete_process_checkpoints(self.pid)
        super().save_instance_state(out_state, save_context)

    def get_status_info(self, out_status_info):
        # the documented extension point: a subclass adds its own entries to the status information
        super().get_status_info(out_status_info)
        out_status_info.update({'pv_status': self.status, 'pv_pid': str(self.pid)})

    # ---- trace helpers ----
    def _t(self, kind, idx, **extra):
        entry = {
            'k': kind,
            'oid': id(self),
            'step': step_name(idx),
            'paused': self.paused,
            'cur': Process.current() is self,
            'status': self.status,
            'state': self.state.value,
        }
        entry.update(extra)
        world.cur().tr(self.pid, entry)

    def _item(self, idx, item):
        kind = item[0]
        if kind == 'out':
            before = copy.deepcopy(self.outputs) if self.PROGRAM.get('snapshot_outputs') else None
            try:
                sep = (self.PROGRAM.get('spec') or {}).get('sep')
                self.out(item[1].replace('.', sep) if sep else item[1], dec(item[2]))
                self._t('out', idx, port=item[1], value=item[2], ok=True, outputs=copy.deepcopy(self.outputs) if before is not None else None)
            except Exception as exc:  # noqa: BLE001 - recorded, the oracle decides
                if isinstance(exc, InjectedFault):
                    raise
                self._t('out', idx, port=item[1], value=item[2], ok=False, err=type(exc).__name__, outputs=copy.deepcopy(self.outputs) if before is not None else None, unchanged=(before == self.outputs) if before is not None else None)
                if self.PROGRAM.get('out_errors_propagate'):
                    raise
        elif kind == 'out_input':
            self.out(item[1], self.inputs[item[2]])
        elif kind == 'out_input_get':
            # a step that looks at an optional input: works for a process constructed without any inputs
            self.out(item[1], self.inputs.get(item[2], item[3]) if item[2] not in self.inputs else self.inputs[item[2]])
        elif kind == 'ctx':
            self.ctx[item[1]] = dec(item[2])
        elif kind == 'ctxinc':
            self.ctx[item[1]] = self.ctx.get(item[1], 0) + 1
        elif kind == 'ctxalias':
            # two context entries referring to one object
            self.ctx[item[1]] = self.ctx.get(item[2])
        elif kind == 'ctxappend':
            self.ctx.setdefault(item[1], []).append(dec(item[2]))
        elif kind == 'status':
            self.set_status(item[1])
            self._t('status', idx, value=item[1])
        elif kind == 'call':
            rec = control(self, item[1], item[2] if len(item) > 2 else None, who=f'self:{step_name(idx)}')
            self._t('call', idx, what=item[1], ret=rec['ret'], raised=rec['raised'], seq=rec['seq'])
        elif kind == 'soon':
            mode, tag = item[1], item[2]
            pid = self.pid

            def callback(proc=self):
                world.cur().tr(pid, {'k': 'cb', 'tag': tag, 'cur': Process.current() is proc, 'state': proc.state.value})
                _hook_point(proc, 'cb:' + tag, 'pre')
                if mode == 'raise':
                    exc = ProgError(tag)
                    world.cur().extra.setdefault('cb_excs', {}).setdefault(tag, []).append(exc)
                    raise exc

            if mode == 'async_obj':
                # a callback that is a callable object with an async __call__ (not a coroutine function)
                class _AsyncCallback:
                    async def __call__(self_cb, proc=self):  # noqa: N805
                        world.cur().tr(pid, {'k': 'cb', 'tag': tag, 'cur': Process.current() is proc, 'state': proc.state.value})
                        await asyncio.sleep(0)
                        world.cur().tr(pid, {'k': 'cb-resumed', 'tag': tag, 'cur': Process.current() is proc, 'state': proc.state.value})

                callback = _AsyncCallback()
            if mode == 'await_child':
                # a coroutine callback that steps another process in its own task; it may well run after this process
                # has terminated (scheduled by the last step)
                child_prog, child_no = item[3], item[4]

                async def callback(proc=self):  # noqa: F811
                    world.cur().tr(pid, {'k': 'cb', 'tag': tag, 'cur': Process.current() is proc, 'state': proc.state.value})
                    cpid = f'{proc.pid}/{child_no}'
                    world.cur().extra.setdefault('parent', {})[cpid] = proc
                    child = make_class(child_prog)(pid=cpid, loop=proc.loop)
                    world.cur().extra.setdefault('children', []).append(child)
                    await child.step_until_terminated()
                    world.cur().tr(pid, {'k': 'cb-after-await-child', 'tag': tag, 'cur': Process.current() is proc, 'state': proc.state.value})

            if mode == 'args':
                # a callback scheduled with positional and keyword arguments: it is called with exactly those
                def callback_args(*args, proc=self, **kwargs):
                    world.cur().tr(pid, {'k': 'cb', 'tag': tag, 'cur': Process.current() is proc, 'state': proc.state.value, 'args_ok': (args, kwargs) == ((1, 'a'), {'k': 2, 'flag': None}), 'got': repr((args, kwargs))[:80]})

                self.call_soon(callback_args, 1, 'a', k=2, flag=None)
            else:
                self.call_soon(callback)
        elif kind == 'soon_parent':
            # schedule a callback on the process that launched / executed this one (on itself if there is none)
            target = world.cur().extra.get('parent', {}).get(self.pid, self)
            tag = item[1]
            tpid = target.pid

            def parent_callback(proc=target):
                world.cur().tr(tpid, {'k': 'cb', 'tag': tag, 'cur': Process.current() is proc, 'state': proc.state.value, 'from_child': True})

            target.call_soon(parent_callback)
        elif kind == 'raise':
            exc = ProgError(item[1])
            world.cur().extra.setdefault('raised', []).append(exc)
            raise exc
        elif kind == 'launch':
            world.cur().extra.setdefault('parent', {})[f'{self.pid}/{item[2]}'] = self
            child = self.launch(make_class(item[1]), pid=f'{self.pid}/{item[2]}')
            world.cur().extra.setdefault('children', []).append(child)
            self._t('launched', idx, child=item[2])
        elif kind == 'orphan':
            # a child launched fire-and-forget that will wait for something that never comes: nobody keeps a reference
            # to it or to its task, the garbage collector finalises its suspended step whenever it gets to it
            self.loop.untracked = True
            try:
                self.launch(make_class(ORPHAN), pid=f'{self.pid}/{item[1]}')
            finally:
                self.loop.untracked = False
            self._t('launched', idx, child=item[1])
        elif kind == 'helper':
            # raw asyncio code started by the step (a fire-and-forget helper task that may outlive it): what it sees as the
            # current process is what it saw when it started, whatever the step that spawned it does afterwards
            w = world.cur()
            samples = w.extra.setdefault('helper_samples', {}).setdefault((self.pid, item[1]), [])

            async def helper(n=item[2] if len(item) > 2 else 6):
                for _ in range(n):
                    cur = Process.current()
                    samples.append(None if cur is None else cur.pid)
                    await asyncio.sleep(0)

            task = asyncio.ensure_future(helper())
            task._pv_owned = True
            w.extra.setdefault('helper_tasks', []).append(task)
        elif kind == 'gc':
            import gc

            gc.collect()
            self._t('resumed', idx)  # a sampling point right after the collection
        elif kind == 'nested':
            world.cur().extra.setdefault('parent', {})[f'{self.pid}/{item[2]}'] = self
            child = make_class(item[1])(pid=f'{self.pid}/{item[2]}', loop=self.loop)
            world.cur().extra.setdefault('children', []).append(child)
            child.execute()
            self._t('after-nested', idx, child=item[2], child_state=child.state.value)
        else:
            raise ValueError(f'unknown item {item}')

    def _ret(self, idx, ret):
        cmds = SUBCLASS_COMMANDS if self.PROGRAM.get('command_subclasses') else STOCK_COMMANDS
        kind = ret[0]
        if kind == 'branch':
            value = self.ctx.get(ret[1])
            chosen = ret[2].get(str(value), ret[3])
            return self._ret(idx, chosen)
        world.cur().extra.setdefault('last_ret', {})[self.pid] = ret
        if kind == 'continue':
            args = ret[2] if len(ret) > 2 and ret[2] else []
            kwargs = ret[3] if len(ret) > 3 and ret[3] else {}
            return cmds['Continue'](getattr(self, step_name(ret[1])), *dec(args), **dec(kwargs))
        if kind == 'wait':
            msg = ret[2] if len(ret) > 2 else None
            data = ret[3] if len(ret) > 3 else None
            if ret[1] is None:
                return cmds['Wait'](msg=msg, data=dec(data))  # parked without a continuation (only kill / fail end it)
            return cmds['Wait'](getattr(self, step_name(ret[1])), msg, dec(data))
        if kind == 'value':
            return dec(ret[1])
        if kind == 'stop':
            return cmds['Stop'](dec(ret[1]), ret[2])
        if kind == 'unsuccessful':
            if ret[1] == '__default__':
                return plumpy.UnsuccessfulResult()  # no code given: the result is None
            return plumpy.UnsuccessfulResult(ret[1])
        if kind == 'kill':
            if ret[1] == NOMSG:
                return cmds['Kill']()  # the command with its default: no message at all
            return cmds['Kill'](MessageBuilder.kill(ret[1]))
        if kind == 'raise':
            exc = ProgError(dec(ret[1]))
            world.cur().extra.setdefault('raised', []).append(exc)
            raise exc
        raise ValueError(f'unknown ret {ret}')

    def _step_sync(self, idx, args, kwargs):
        spec = self.PROGRAM['steps'][idx]
        _hook_point(self, 'step:' + step_name(idx), 'entry')
        self._t('enter', idx, args=list(args), kwargs=dict(kwargs))
        outcome = 'raised'
        try:
            _hook_point(self, 'step:' + step_name(idx), 'pre')
            for item in spec['body']:
                self._item(idx, item)
            _hook_point(self, 'step:' + step_name(idx), 'post')
            result = self._ret(idx, spec['ret'])
            outcome = 'returned'
            return result
        except process_states.Interruption:
            outcome = 'interrupted'
            raise
        finally:
            self._t('exit', idx, outcome=outcome)

    async def _step_async(self, idx, args, kwargs):
        spec = self.PROGRAM['steps'][idx]
        _hook_point(self, 'step:' + step_name(idx), 'entry')
        self._t('enter', idx, args=list(args), kwargs=dict(kwargs))
        outcome = 'raised'
        try:
            _hook_point(self, 'step:' + step_name(idx), 'pre')
            for item in spec['body']:
                if item[0] == 'yield':
                    await asyncio.sleep(0)
                    self._t('resumed', idx)
                elif item[0] == 'gate':
                    await world.cur().gate(self.pid, item[1])
                    self._t('resumed', idx)
                elif item[0] == 'await_forever':
                    await self.loop.create_future()  # nobody else holds this future
                elif item[0] == 'await_child':
                    # step a child in this very task (it shares the parent's context)
                    cpid = f'{self.pid}/{item[2]}'
                    world.cur().extra.setdefault('parent', {})[cpid] = self
                    child = make_class(item[1])(pid=cpid, loop=self.loop)
                    world.cur().extra.setdefault('children', []).append(child)
                    await child.step_until_terminated()
                    self._t('after-await-child', idx, child=cpid, child_state=child.state.value)
                else:
                    self._item(idx, item)
            _hook_point(self, 'step:' + step_name(idx), 'post')
            result = self._ret(idx, spec['ret'])
            outcome = 'returned'
            return result
        except process_states.Interruption:
            outcome = 'interrupted'
            raise
        except asyncio.CancelledError:
            outcome = 'cancelled'
            raise
        finally:
            self._t('exit', idx, outcome=outcome)


class CodecProg(ProgBase):
    """A process class with a non-identity codec for its inputs and outputs (encode_input_args / decode_input_args)."""

    def encode_input_args(self, inputs):
        from collections.abc import Mapping

        # the hook is documented to receive "a mapping of the inputs as passed to the process"
        assert isinstance(inputs, Mapping), f'encode_input_args was handed {type(inputs).__name__}, not a mapping'
        return {'__encoded__': copy.deepcopy(plain_mapping(inputs))}

    def decode_input_args(self, encoded):
        return copy.deepcopy(encoded['__encoded__'])


def plain_mapping(value):
    from collections.abc import Mapping

    if isinstance(value, Mapping):
        return {k: plain_mapping(v) for k, v in value.items()}
    return value


def _make_step(idx, is_async):
    name = step_name(idx)
    if is_async:

        async def step(self, *args, **kwargs):
            return await self._step_async(idx, args, kwargs)
    else:

        def step(self, *args, **kwargs):
            return self._step_sync(idx, args, kwargs)

    step.__name__ = name
    step.__qualname__ = name
    return step


_CLASS_COUNT = 0


class Retry(process_states.Continue):
    """Application-defined commands: subclasses of the library's commands mean what their base class means."""


class WaitForUpload(process_states.Wait):
    pass


class Verdict(process_states.Stop):
    pass


class Abort(process_states.Kill):
    pass


STOCK_COMMANDS = {'Continue': process_states.Continue, 'Wait': process_states.Wait, 'Stop': process_states.Stop, 'Kill': process_states.Kill}
SUBCLASS_COMMANDS = {'Continue': Retry, 'Wait': WaitForUpload, 'Stop': Verdict, 'Kill': Abort}


ORPHAN = {'steps': [{'async': True, 'body': [['yield'], ['await_forever']], 'ret': ['value', 0]}]}


class InterruptibleRunning(process_states.Running):
    """A RUNNING state of an application whose long operations can be interrupted: interrupt(reason) is forwarded to
    the operation the step is waiting for (here: the harness gate), which raises it inside the step function."""

    def interrupt(self, reason):
        w = world.cur()
        for (pid, _name), fut in list(w.gates.items()):
            if pid == self.process.pid and not fut.done():
                fut.set_exception(reason)
                w.gates.pop((pid, _name), None)  # the next wait on this gate gets a fresh future
                return
        super().interrupt(reason)


class EagerWaiting(process_states.Waiting):
    """A WAITING state of an application that finds, while the state is being entered, that what it waits for is there
    already and resumes at once (custom state classes are installed through Process.get_state_classes(), as
    WorkChain does for its own Waiting)."""

    def enter(self):
        super().enter()
        w = world.cur()
        pid = self.process.pid
        serial = w.extra.setdefault('wait_enters', {}).get(pid, 0)
        w.extra['wait_enters'][pid] = serial + 1
        plan = w.extra.get('resume_on_enter', {}).get(pid, {})
        if serial in plan:
            self.resume(dec(plan[serial]))


def _failing_exit(state):
    """A deterministic bug in the exit() of an application-defined state: it fails every time it is called."""
    w = world.cur()
    exc = InjectedFault(f'state-exit:{type(state).__name__}')
    if w.fault_fired is None:
        w.fault_fired = ('state-exit', type(state).__name__, 1, 'post', exc, False)
    w.extra['state_exit_calls'] = w.extra.get('state_exit_calls', 0) + 1
    raise exc


class FailingExitRunning(process_states.Running):
    def exit(self):
        super().exit()
        if self.process.PROGRAM.get('failing_state_exit') == 'running':
            _failing_exit(self)


class FailingExitWaiting(process_states.Waiting):
    def exit(self):
        super().exit()
        if self.process.PROGRAM.get('failing_state_exit') == 'waiting':
            _failing_exit(self)


class SamplingWaiting(process_states.Waiting):
    """A WAITING state whose execute() runs code of the process before and after the wait (as the states of
    applications built on plumpy do): that code runs in the scope of the process like a step does."""

    async def execute(self):
        proc = self.process
        world.cur().tr(proc.pid, {'k': 'wait-execute', 'cur': Process.current() is proc, 'state': proc.state.value})
        try:
            return await super().execute()
        finally:
            world.cur().tr(proc.pid, {'k': 'wait-executed', 'cur': Process.current() is proc, 'state': proc.state.value})


def _eager_state_classes(cls):
    classes = dict(super(cls._pv_eager_owner, cls).get_state_classes())
    if cls.PROGRAM.get('eager_waiting'):
        classes[process_states.ProcessState.WAITING] = EagerWaiting
    if cls.PROGRAM.get('interruptible_running'):
        classes[process_states.ProcessState.RUNNING] = InterruptibleRunning
    if cls.PROGRAM.get('sampling_waiting'):
        classes[process_states.ProcessState.WAITING] = SamplingWaiting
    if cls.PROGRAM.get('failing_state_exit') == 'running':
        classes[process_states.ProcessState.RUNNING] = FailingExitRunning
    if cls.PROGRAM.get('failing_state_exit') == 'waiting':
        classes[process_states.ProcessState.WAITING] = FailingExitWaiting
    return classes


def make_class(program, base=None):
    """Return the generated Process subclass interpreting ``program`` (cached by content hash)."""
    global _CLASS_COUNT
    name = 'P_' + jkey(program)[:16]
    cls = getattr(gen_classes, name, None)
    if cls is not None:
        return cls
    steps = program['steps']
    assert 1 <= len(steps) <= MAX_STEPS
    namespace = {'PROGRAM': program, '__module__': gen_classes.__name__}
    if (program.get('spec') or {}).get('sep'):
        from .models import ports as port_model

        namespace['_spec_class'] = port_model.spec_class_for(program['spec']['sep'])
    elif (program.get('spec') or {}).get('strict_ports'):
        from .models import ports as port_model

        namespace['_spec_class'] = port_model.strict_spec_class()
    for idx, step in enumerate(steps):
        namespace[step_name(idx)] = _make_step(idx, bool(step.get('async')))
    if program.get('eager_waiting') or program.get('interruptible_running') or program.get('sampling_waiting') or program.get('failing_state_exit'):
        namespace['get_state_classes'] = classmethod(_eager_state_classes)
    if program.get('initial') is not None:
        # an application that starts its first step with arguments (create_initial_state() is the documented place)
        init_args, init_kwargs = program['initial']

        def create_initial_state(self):
            return self.get_state_class(process_states.ProcessState.CREATED)(self, self.run, *dec(init_args), **dec(init_kwargs))

        namespace['create_initial_state'] = create_initial_state
    if program.get('value_eq') is not None:
        # processes that compare by value (jobs ordered / de-duplicated by a priority): equal is not identical
        rank = program['value_eq']
        namespace['__eq__'] = lambda self, other: isinstance(other, Process) and getattr(other, 'PROGRAM', {}).get('value_eq') == rank
        namespace['__hash__'] = lambda self: hash(('rank', rank))
    if program.get('falsy'):
        # a container-like process that is (still) empty: falsy, but a process
        namespace['__len__'] = lambda self: 0
    cls = type(name, (base or (CodecProg if program.get('codec') else ProgBase),), namespace)
    if program.get('eager_waiting') or program.get('interruptible_running') or program.get('sampling_waiting') or program.get('failing_state_exit'):
        cls._pv_eager_owner = cls
    setattr(gen_classes, name, cls)
    _CLASS_COUNT += 1
    return cls


def forget_classes():
    """Drop generated classes (bounds memory in long runs)."""
    for name in list(vars(gen_classes)):
        if name.startswith(('P_', 'W_', 'S_')):
            delattr(gen_classes, name)
