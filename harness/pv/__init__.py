"""pv -- property verification harness for plumpy (generated-input search with explicit oracles)."""
