"""E1 -- StepLoop: an asyncio event loop whose schedule is owned by the harness.

``step_one()`` pops and runs exactly one ready handle (FIFO, as asyncio would).  External events
are executed by the harness between two ``step_one()`` calls, which is observationally the same
as the event arriving in a callback of its own at that queue position.

Only asyncio internals (``_ready``, ``_scheduled``) are touched, never plumpy internals.
"""

import asyncio
import contextlib
import heapq
from asyncio import events as _events


class StepLoop(asyncio.SelectorEventLoop):
    def __init__(self):
        super().__init__()
        self.contexts = []  # every context passed to call_exception_handler
        self._vtime = 0.0
        self.ticks = 0
        self.wakeups = 0
        self.all_tasks = []  # every task ever created on this loop (asyncio.all_tasks() forgets finished ones)
        self.set_exception_handler(self._record_context)
        self.set_task_factory(self._make_task)

    def _make_task(self, loop, coro, **kwargs):
        task = asyncio.Task(coro, loop=loop, **kwargs)
        if not getattr(self, 'untracked', False):
            self.all_tasks.append(task)  # (a task created while `untracked` is set is held by nobody, like in asyncio)
        return task

    # -- observation -------------------------------------------------------------------------
    def _record_context(self, _loop, context):
        exc = context.get('exception')
        self.contexts.append(
            {
                'message': context.get('message', ''),
                'exception': exc,
                'exc_type': type(exc).__name__ if exc is not None else None,
                'exc_str': str(exc)[:200] if exc is not None else None,
            }
        )

    def escapes(self):
        """Contexts that mean an exception escaped into the loop (GC-timing dependent ones excluded)."""
        out = []
        for ctx in self.contexts:
            msg = ctx['message']
            if 'exception was never retrieved' in msg:
                # reported from __del__, i.e. whenever the object happens to be collected: failed tasks are
                # reported deterministically below instead, unretrieved future exceptions are not judged
                continue
            out.append(ctx)
        for task in self.all_tasks:
            if getattr(task, '_pv_owned', False):
                continue  # the harness's own task running step_until_terminated(): judged through views()
            if task.done() and not task.cancelled() and task.exception() is not None:
                exc = task.exception()
                out.append({'message': 'Task failed: ' + repr(task.get_coro())[:60], 'exception': exc, 'exc_type': type(exc).__name__, 'exc_str': str(exc)[:200]})
        return out

    # -- virtual clock -----------------------------------------------------------------------
    def time(self):
        return self._vtime

    def _write_to_self(self):
        # the selector is never polled, so waking it up is pointless (and would fill the socket buffer); the calls are
        # counted: a hand-off from another thread that does not wake the loop would stall a real, idle loop
        self.wakeups += 1

    def _move_due_timers(self):
        while self._scheduled and self._scheduled[0]._cancelled:
            handle = heapq.heappop(self._scheduled)
            handle._scheduled = False
        if not self._ready and self._scheduled:
            # jump the clock to the next timer
            self._vtime = max(self._vtime, self._scheduled[0]._when)
        while self._scheduled and self._scheduled[0]._when <= self._vtime:
            handle = heapq.heappop(self._scheduled)
            handle._scheduled = False
            if not handle._cancelled:
                self._ready.append(handle)

    # -- the schedule ------------------------------------------------------------------------
    @contextlib.contextmanager
    def as_running(self):
        """Install this loop as current *and running* loop (plumpy creates futures without a loop argument)."""
        prev = _events._get_running_loop()
        if prev is self:
            yield
            return
        _events._set_running_loop(self)
        try:
            yield
        finally:
            _events._set_running_loop(prev)

    def pending(self):
        self._move_due_timers()
        return sum(1 for h in self._ready if not h._cancelled)

    def step_one(self):
        """Run exactly one ready handle. Return False if nothing was runnable."""
        self._move_due_timers()
        while self._ready:
            handle = self._ready.popleft()
            if handle._cancelled:
                continue
            with self.as_running():
                handle._run()
            handle = None
            self.ticks += 1
            BUDGET['used'] += 1
            if BUDGET['limit'] is not None and BUDGET['used'] > BUDGET['limit']:
                # the code under test keeps the loop busy for ever (e.g. a stepping task that fails and retries without
                # end): stop the case instead of hanging the check; the runner turns this into a violation
                BUDGET['limit'] = None
                BUDGET['tripped'] = f"more than {BUDGET['used'] - 1} event-loop callbacks within one case"
                raise Livelock(f"more than {BUDGET['used'] - 1} event-loop callbacks ran within one case without the loop becoming quiet")
            return True
        return False

    def drain(self, max_ticks=100000):
        """Run handles until quiescent. Return number of handles run."""
        n = 0
        while n < max_ticks and self.step_one():
            n += 1
        return n

    def shutdown(self):
        """Close the loop (selector + socket pair); cancel whatever is left so nothing outlives a case."""
        try:
            self._ready.clear()
            self._scheduled.clear()
        finally:
            if not self.is_closed():
                self.close()


class Livelock(BaseException):
    """Raised when a single case has run more callbacks / user-code entries than any terminating case needs.  A
    BaseException on purpose: the code under test must not be able to swallow it as a failure of user code and carry
    on with the very loop it is meant to break."""


# callbacks run within the current case; the runner resets it before every case
BUDGET = {'used': 0, 'limit': None}
CASE_LIMIT = 20000


def start_case():
    BUDGET['used'] = 0
    BUDGET['traced'] = 0
    BUDGET['tripped'] = None
    BUDGET['armed'] = True
    BUDGET['limit'] = CASE_LIMIT


@contextlib.contextmanager
def fresh_loop():
    loop = StepLoop()
    prev_policy_loop = None
    try:
        asyncio.set_event_loop(loop)
        yield loop
    finally:
        # silence "Task was destroyed but it is pending" for tasks abandoned on purpose
        for task in list(asyncio.all_tasks(loop)):
            task._log_destroy_pending = False
        loop.shutdown()
        asyncio.set_event_loop(prev_policy_loop)
