"""Generators: Hypothesis strategies and small-scope catalogues for (program, schedule) cases."""

import itertools

from hypothesis import strategies as st

from .programs import NOVALUE

VALUES = st.one_of(st.integers(-2, 5), st.sampled_from(['a', 'b', '']), st.none(), st.booleans())
TEXTS = st.sampled_from(['t1', 't2', 'stop it', ''])
GATES = ('g1', 'g2')


def V(value):
    return ['value', value]


# ---------------------------------------------------------------------------------------------
# canonical programs (small-scope enumeration)
# ---------------------------------------------------------------------------------------------
def S(body=(), ret=None, is_async=False):
    return {'async': is_async, 'body': [list(b) for b in body], 'ret': list(ret or ['value', 0])}


CATALOGUE = {
    # one async step with two suspension points
    'async2': {'steps': [S([['yield'], ['status', 's1'], ['yield']], ['value', 7], True)]},
    # sync -> wait -> sync
    'wait1': {'steps': [S([], ['wait', 1, 'w', None]), S([['out', 'x', 1]], ['value', 3])]},
    # async -> continue(args) -> async
    'chain': {
        'steps': [
            S([['yield']], ['continue', 1, [1, 'a'], {}], True),
            S([['yield'], ['out', 'ns.y', 2]], ['value', 'r'], True),
        ]
    },
    # wait -> async -> wait -> value
    'waitwait': {
        'steps': [
            S([], ['wait', 1, None, None]),
            S([['yield'], ['status', 'mid']], ['wait', 2, 'second', {'d': 1}], True),
            S([], ['unsuccessful', 4]),
        ]
    },
    # async step that fails after a suspension point
    'failing': {'steps': [S([['yield']], ['continue', 1, [], {}], True), S([['yield'], ['raise', 'boom']], ['value', 0], True)]},
    # step blocked on a gate
    'gated': {'steps': [S([['gate', 'g1']], ['continue', 1, [], {}], True), S([], ['value', 1])]},
    # plain sync chain (runs in a single loop callback)
    'sync3': {'steps': [S([], ['continue', 1, [], {}]), S([['status', 'x']], ['continue', 2, [5], {}]), S([], ['value', 9])]},
    # step returning Kill
    'selfkill': {'steps': [S([['yield']], ['kill', 'own'], True)]},
}
# declares a required output that is never emitted: a normal return ends FINISHED but unsuccessful
MISSING_OUT = {
    'steps': [S([['yield'], ['status', 'm1'], ['yield']], ['wait', 1, None, None], True), S([['yield']], ['value', 4], True)],
    'spec': {'outputs': {'kind': 'ns', 'required': True, 'dynamic': True, 'valid_type': None, 'validator': None, 'populate_defaults': True, 'ports': {'need': {'kind': 'port', 'required': True, 'valid_type': 'int', 'validator': None, 'default': None}}}},
}
CATALOGUE['missing_out'] = MISSING_OUT


def schedules(alphabet, k, max_gap):
    """All schedules of exactly k events from alphabet, each preceded by 0..max_gap ticks."""
    for events in itertools.product(alphabet, repeat=k):
        for gaps in itertools.product(range(max_gap + 1), repeat=k):
            sched = []
            for gap, ev in zip(gaps, events):
                if gap:
                    sched.append(['tick', gap])
                sched.append(list(ev))
            yield sched


# ---------------------------------------------------------------------------------------------
# Hypothesis strategies
# ---------------------------------------------------------------------------------------------
@st.composite
def step_items(draw, is_async, self_calls, soon, outs=True, max_items=4, soon_modes=('ok', 'ok', 'raise')):
    kinds = ['status']
    if outs:
        kinds += ['out', 'out']
    if is_async:
        kinds += ['yield', 'yield', 'yield', 'gate']
    if self_calls:
        kinds += ['call', 'call', 'call']
    if soon:
        kinds += ['soon']
    n = draw(st.integers(0, max_items))
    items = []
    for _ in range(n):
        kind = draw(st.sampled_from(kinds))
        if kind == 'yield':
            items.append(['yield'])
        elif kind == 'gate':
            items.append(['gate', draw(st.sampled_from(GATES))])
        elif kind == 'status':
            items.append(['status', draw(st.sampled_from(['s1', 's2', None]))])
        elif kind == 'out':
            items.append(['out', draw(st.sampled_from(['x', 'y', 'ns.z', 'ns.sub.w'])), draw(st.integers(0, 3))])
        elif kind == 'call':
            what = draw(st.sampled_from(self_calls))
            arg = draw(TEXTS) if what in ('pause', 'kill') else None
            items.append(['call', what, arg])
        elif kind == 'soon':
            items.append(['soon', draw(st.sampled_from(list(soon_modes))), draw(st.sampled_from(['c1', 'c2']))])
    return items


@st.composite
def programs(draw, max_steps=5, self_calls=(), soon=False, endings=('value', 'unsuccessful', 'raise', 'kill'), waits=True, kwargs=False, soon_modes=('ok', 'ok', 'raise')):
    n = draw(st.integers(1, max_steps))
    steps = []
    for idx in range(n):
        is_async = draw(st.booleans())
        body = draw(step_items(is_async, self_calls, soon, soon_modes=soon_modes))
        last = idx == n - 1
        if last or draw(st.integers(0, 9)) == 0:
            kind = draw(st.sampled_from(endings))
            if kind == 'value':
                ret = ['value', draw(VALUES)]
            elif kind == 'unsuccessful':
                ret = ['unsuccessful', draw(st.integers(0, 3))]
            elif kind == 'raise':
                ret = ['raise', draw(st.sampled_from(['e1', 'e2']))]
            else:
                ret = ['kill', draw(st.one_of(TEXTS, st.just('__nomsg__')))]
        else:
            nxt = draw(st.integers(idx + 1, n - 1))
            if waits and draw(st.booleans()):
                ret = ['wait', nxt, draw(st.sampled_from([None, 'msg'])), draw(st.sampled_from([None, 1, {'k': 'v'}]))]
            else:
                args = draw(st.lists(VALUES, max_size=2))
                kw = draw(st.dictionaries(st.sampled_from(['p', 'q']), VALUES, max_size=2)) if kwargs else {}
                ret = ['continue', nxt, args, kw]
        steps.append({'async': is_async, 'body': body, 'ret': ret})
    return {'steps': steps}


@st.composite
def control_schedules(draw, alphabet, max_events=4, max_gap=4, post=False):
    n = draw(st.integers(1, max_events))
    sched = []
    for _ in range(n):
        gap = draw(st.integers(0, max_gap))
        if gap:
            sched.append(['tick', gap])
        what = draw(st.sampled_from(alphabet))
        if what in ('pause', 'kill'):
            sched.append([what, draw(TEXTS)])
        elif what == 'resume':
            sched.append(['resume', draw(st.sampled_from([NOVALUE, 1, 'v', 0, None]))])
        elif what == 'fail':
            sched.append(['fail', draw(st.sampled_from(['f1', 'f2']))])
        elif what == 'open':
            sched.append(['open', draw(st.sampled_from(GATES))])
        elif what == 'withdraw_pause':
            sched.append(['withdraw', 'pause'])
        elif what == 'killw':
            sched.append(['killw', draw(TEXTS)])
        elif what == 'ext_soon':
            sched.append(['ext_soon', draw(st.sampled_from(['ok', 'ok', 'raise'])), 'e%d' % len(sched)])
        elif what in ('cancel_task', 'restep', 'reload', 'withdraw', 'close'):
            sched.append([what])
        else:
            sched.append([what])
    return sched


@st.composite
def listener_plans(draw, calls, max_plans=2):
    n = draw(st.integers(0, max_plans))
    plans = []
    for _ in range(n):
        on = draw(
            st.sampled_from(
                ['on_process_running', 'on_process_waiting', 'on_process_paused', 'on_process_played', 'on_output_emitted']
            )
        )
        what = draw(st.sampled_from(calls))
        arg = draw(TEXTS) if what in ('pause', 'kill') else None
        plans.append({'on': on, 'occ': draw(st.integers(1, 3)), 'do': [what, arg]})
    return plans


HOOK_SITES = ['on_run', 'on_running', 'on_exit_running', 'on_wait', 'on_waiting', 'on_exit_waiting', 'on_finish', 'on_finished', 'on_entering', 'on_entered', 'on_exiting', 'on_output_emitted', 'on_kill', 'on_killed', 'on_excepted', 'on_paused', 'on_playing']
# fail() cannot be called while a transition is in progress (plumpy asserts): a hook may only call it where the
# terminal state has been entered already, and there it must be a no-op
FAIL_HOOK_SITES = ['on_finished', 'on_killed', 'on_excepted']


@st.composite
def hook_plans(draw, calls, max_plans=2):
    """Control calls issued by (non-raising) lifecycle hook overrides."""
    n = draw(st.integers(0, max_plans))
    plans = []
    for _ in range(n):
        what = draw(st.sampled_from(calls))
        arg = draw(TEXTS) if what in ('pause', 'kill') else None
        if what == 'fail':
            plans.append({'hook': draw(st.sampled_from(FAIL_HOOK_SITES)), 'occ': 1, 'pos': draw(st.sampled_from(['pre', 'post'])), 'do': ['fail', 'hf']})
            continue
        plans.append({'hook': draw(st.sampled_from(HOOK_SITES)), 'occ': draw(st.integers(1, 3)), 'pos': draw(st.sampled_from(['pre', 'post'])), 'do': [what, arg]})
    return plans


# ---------------------------------------------------------------------------------------------
# workchain catalogue for the schedule checks (awaitables are harness futures completed by ['wcfut', id] events)
# ---------------------------------------------------------------------------------------------
WC_CATALOGUE = {
    'wc_await': {
        'outline': [['step', 'a'], ['step', 'b'], ['step', 'c']],
        'behaviour': {'rets': {'a': [{'__tc__': {'k': ['fut', 'f1']}}], 'c': [5]}, 'bodies': {'b': [['out', 'x', 1], ['status', 'sb']]}, 'preds': {}},
    },
    'wc_loop': {
        'outline': [['step', 'a'], ['while', 'p', [['step', 'b'], ['step', 'c']]], ['step', 'd']],
        'behaviour': {'rets': {'c': [{'__tc__': {'k': ['fut', 'f1']}}, {'__tc__': {'k2': ['fut', 'f2']}}]}, 'preds': {'p': [True, True, False]}, 'bodies': {'b': [['out', 'ns.y', 2]]}},
    },
    'wc_branch': {
        'outline': [['if', [['p', [['step', 'a'], ['return', 3]]]], [['step', 'b']]], ['step', 'c']],
        'behaviour': {'rets': {'b': [{'__tc__': {'k': ['fut', 'f1']}}]}, 'preds': {'p': [False]}, 'tocontext': {'b': [{'k3': ['fut', 'f2']}]}},
    },
}
WC_EVENTS = [['wcfut', 'f1'], ['wcfut', 'f2']]


def base(name):
    """The part of a case that says what runs: {'program': ...} or {'outline': ..., 'behaviour': ...}."""
    if name in WC_CATALOGUE:
        return dict(WC_CATALOGUE[name])
    return {'program': CATALOGUE[name]}
